import PrysmVerif.Lemmas.C07Jacobi
import PrysmVerif.Lemmas.C07Hermite
import Mathlib.Algebra.BigOperators.Ring.Finset
import Mathlib.Tactic.Positivity
import Mathlib.Data.Nat.Factorial.Basic
/-! # C07 — the Jacobi recurrence family equals DLMF 18.5.7's explicit hypergeometric sum, for every order -/
namespace C07L
open Model.C07 Finset
set_option linter.unusedSectionVars false
set_option linter.unusedSimpArgs false
set_option linter.unusedVariables false

section
variable {K : Type} [Field K] [LinearOrder K] [IsStrictOrderedRing K]

/-- the terms of DLMF 18.5.7, `P_n^{(α,β)}(x) = (α+1)_n/n! · ₂F₁(−n, n+α+β+1; α+1; (1−x)/2)`, in powers of
    `y = (x−1)/2`: `d(n,0) = (α+1)_n/n!` and the hypergeometric term ratio
    `d(n,l+1)/d(n,l) = (n+α+β+l+1)(n−l) / ((l+1)(α+l+1))` -/
def hyp (a b : K) (n : ℕ) : ℕ → K
  | 0 => ∏ k ∈ range n, ((k:K) + a + 1) / ((k:K) + 1)
  | l+1 => hyp a b n l * ((((n:K) + a + b + l + 1) * ((n:K) - l)) / (((l:K) + 1) * (a + l + 1)))

theorem hyp_zero_succ (a b : K) (n : ℕ) : hyp a b (n+1) 0 = hyp a b n 0 * (((n:K) + a + 1) / ((n:K) + 1)) := by
  simp only [hyp, prod_range_succ]

theorem hyp_vanish (a b : K) (n l : ℕ) (h : n < l) : hyp a b n l = 0 := by
  induction l with
  | zero => omega
  | succ l ih =>
    rcases Nat.lt_succ_iff_lt_or_eq.mp h with h' | h'
    · simp [hyp, ih h']
    · subst h'; simp [hyp]

theorem hyp_X (a b : K) (ha : -1 < a) (hb : -1 < b) (n l : ℕ) :
    hyp a b (n+1) l * (((n:K) + a + b + 1) * ((n:K) + 1 - l))
      = hyp a b n l * (((n:K) + a + b + l + 1) * (a + n + 1)) := by
  have hn : (0:K) ≤ n := Nat.cast_nonneg n
  induction l with
  | zero =>
    rw [hyp_zero_succ]
    have h1 : ((n:K) + 1) ≠ 0 := by positivity
    push_cast
    field_simp
    ring
  | succ l ih =>
    have hl : (0:K) ≤ l := Nat.cast_nonneg l
    have h1 : ((l:K) + 1) ≠ 0 := by positivity
    have h2 : (a + (l:K) + 1) ≠ 0 := by nlinarith
    simp only [hyp]
    push_cast
    field_simp
    linear_combination (((n:K) + a + b + l + 2) * ((n:K) - l)) * ih

/-- coefficient form of the three-term recurrence for the hypergeometric terms (every `n`, every `l`) -/
theorem hyp_R (a b : K) (ha : -1 < a) (hb : -1 < b) (n l : ℕ) :
    hyp a b (n+2) (l+1) =
      2 * ((2 * ((n:K)+1) + a + b + 1) * (2 * ((n:K)+1) + a + b + 2) / (2 * (((n:K)+1) + 1) * (((n:K)+1) + a + b + 1))) * hyp a b (n+1) l
      + ((2 * ((n:K)+1) + a + b + 1) * (2 * ((n:K)+1) + a + b + 2) / (2 * (((n:K)+1) + 1) * (((n:K)+1) + a + b + 1))
          + (a * a - b * b) * (2 * ((n:K)+1) + a + b + 1) / (2 * (((n:K)+1) + 1) * (((n:K)+1) + a + b + 1) * (2 * ((n:K)+1) + a + b)))
        * hyp a b (n+1) (l+1)
      - (((n:K)+1) + a) * (((n:K)+1) + b) * (2 * ((n:K)+1) + a + b + 2) / ((((n:K)+1) + 1) * (((n:K)+1) + a + b + 1) * (2 * ((n:K)+1) + a + b))
        * hyp a b n (l+1) := by
  have hn : (0:K) ≤ n := Nat.cast_nonneg n
  have hl : (0:K) ≤ l := Nat.cast_nonneg l
  have p1 : ((l:K) + 1) ≠ 0 := by positivity
  have p2 : (a + (l:K) + 1) ≠ 0 := by nlinarith
  have p3 : ((n:K) + a + b + 2) ≠ 0 := by nlinarith
  have p4 : (a + (n:K) + 1) ≠ 0 := by nlinarith
  have p5 : ((n:K) + 1 + 1) ≠ 0 := by positivity
  have p6 : (2 * ((n:K) + 1) + a + b) ≠ 0 := by nlinarith
  have p7 : ((n:K) + 1 + a + b + 1) ≠ 0 := by nlinarith
  have h1 := hyp_X a b ha hb (n+1) l
  have h0 := hyp_X a b ha hb n l
  push_cast at h1 h0
  have E1 : hyp a b (n+2) (l+1) = hyp a b (n+1) l * (((n:K)+a+b+l+2) * (a+n+2) * ((n:K)+a+b+l+3))
      / (((l:K)+1) * (a+l+1) * ((n:K)+a+b+2)) := by
    rw [eq_div_iff (by positivity)]
    simp only [hyp]; push_cast; field_simp
    linear_combination ((n:K)+a+b+l+3) * h1
  have E2 : hyp a b n (l+1) = hyp a b (n+1) l * (((n:K)+a+b+1) * ((n:K)+1-l) * ((n:K)-l))
      / ((a+(n:K)+1) * ((l:K)+1) * (a+l+1)) := by
    rw [eq_div_iff (by positivity)]
    simp only [hyp]; push_cast; field_simp
    linear_combination (-((n:K)-l)) * h0
  have E3 : hyp a b (n+1) (l+1) = hyp a b (n+1) l * (((n:K)+a+b+l+2) * ((n:K)+1-l)) / (((l:K)+1) * (a+l+1)) := by
    simp only [hyp]; push_cast; field_simp; ring
  rw [E1, E2, E3]
  field_simp
  ring

/-- value-at-one form of the recurrence (the `l = 0` coefficient) -/
theorem hyp_R0 (a b : K) (ha : -1 < a) (hb : -1 < b) (n : ℕ) :
    hyp a b (n+2) 0 =
      ((2 * ((n:K)+1) + a + b + 1) * (2 * ((n:K)+1) + a + b + 2) / (2 * (((n:K)+1) + 1) * (((n:K)+1) + a + b + 1))
          + (a * a - b * b) * (2 * ((n:K)+1) + a + b + 1) / (2 * (((n:K)+1) + 1) * (((n:K)+1) + a + b + 1) * (2 * ((n:K)+1) + a + b)))
        * hyp a b (n+1) 0
      - (((n:K)+1) + a) * (((n:K)+1) + b) * (2 * ((n:K)+1) + a + b + 2) / ((((n:K)+1) + 1) * (((n:K)+1) + a + b + 1) * (2 * ((n:K)+1) + a + b))
        * hyp a b n 0 := by
  have hn : (0:K) ≤ n := Nat.cast_nonneg n
  have p3 : ((n:K) + 1 + a + b + 1) ≠ 0 := by nlinarith
  have p4 : ((n:K) + a + 1) ≠ 0 := by nlinarith
  have p5 : ((n:K) + 1 + 1) ≠ 0 := by positivity
  have p6 : (2 * ((n:K) + 1) + a + b) ≠ 0 := by nlinarith
  have p8 : ((n:K) + 1) ≠ 0 := by positivity
  have p6' : (((n:K) + 1) * 2 + a + b) ≠ 0 := by nlinarith
  rw [hyp_zero_succ a b (n+1), hyp_zero_succ a b n]
  push_cast
  field_simp
  ring

/-- `S N f = Σ_{l<N} f l · y^l` -/
def pows (y : K) (N : ℕ) (f : ℕ → K) : K := ∑ l ∈ range N, f l * y ^ l

theorem pows_succ' (y : K) (N : ℕ) (f : ℕ → K) :
    pows y (N+1) f = f 0 + y * pows y N (fun l => f (l+1)) := by
  unfold pows
  rw [sum_range_succ', mul_sum]
  simp only [pow_zero, mul_one]
  rw [add_comm]
  congr 1
  apply sum_congr rfl
  intro l _
  ring

/-- DLMF 18.5.7 as a finite sum in powers of `(x−1)/2` -/
def jacobiExplicit (a b : K) (n : ℕ) (x : K) : K := pows ((x - 1) / 2) (n+1) (hyp a b n)

/-- **the recurrence family equals the explicit hypergeometric sum** (DLMF 18.5.7) for every order `n`,
    all `α, β > −1` and every `x` -/
theorem jacobi_explicit (a b : K) (ha : -1 < a) (hb : -1 < b) (x : K) (n : ℕ) :
    jacobi n a b x = jacobiExplicit a b n x := by
  induction n using Nat.strong_induction_on with
  | _ n ih =>
    match n with
    | 0 => simp [jacobi_zero, jacobiExplicit, pows, hyp]
    | 1 =>
      have h1 : (a + 1) ≠ 0 := by nlinarith
      simp [jacobi_one, jacP1, jacobiExplicit, pows, hyp, sum_range_succ]
      field_simp
      left; ring
    | n+2 =>
      rw [jacobi_succ_succ, jacStep_eq, ih n (by omega), ih (n+1) (by omega)]
      obtain ⟨y, rfl⟩ : ∃ y, x = 2 * y + 1 := ⟨(x - 1) / 2, by ring⟩
      have hy : (2 * y + 1 - 1) / 2 = y := by ring
      simp only [jacobiExplicit, hy]
      -- E_{n+2}
      rw [pows_succ' y (n+2) (hyp a b (n+2))]
      have hR : pows y (n+2) (fun l => hyp a b (n+2) (l+1))
          = 2 * ((2 * ((n:K)+1) + a + b + 1) * (2 * ((n:K)+1) + a + b + 2) / (2 * (((n:K)+1) + 1) * (((n:K)+1) + a + b + 1)))
              * pows y (n+2) (hyp a b (n+1))
          + ((2 * ((n:K)+1) + a + b + 1) * (2 * ((n:K)+1) + a + b + 2) / (2 * (((n:K)+1) + 1) * (((n:K)+1) + a + b + 1))
              + (a * a - b * b) * (2 * ((n:K)+1) + a + b + 1) / (2 * (((n:K)+1) + 1) * (((n:K)+1) + a + b + 1) * (2 * ((n:K)+1) + a + b)))
            * pows y (n+2) (fun l => hyp a b (n+1) (l+1))
          - (((n:K)+1) + a) * (((n:K)+1) + b) * (2 * ((n:K)+1) + a + b + 2) / ((((n:K)+1) + 1) * (((n:K)+1) + a + b + 1) * (2 * ((n:K)+1) + a + b))
            * pows y (n+2) (fun l => hyp a b n (l+1)) := by
        unfold pows
        simp only [mul_sum, ← sum_add_distrib, ← sum_sub_distrib]
        apply sum_congr rfl
        intro l _
        rw [hyp_R a b ha hb n l]
        ring
      have hT1 : hyp a b (n+1) 0 + y * pows y (n+2) (fun l => hyp a b (n+1) (l+1)) = pows y (n+2) (hyp a b (n+1)) := by
        rw [← pows_succ']
        unfold pows
        rw [sum_range_succ, hyp_vanish a b (n+1) (n+2) (by omega)]
        simp
      have hT0 : hyp a b n 0 + y * pows y (n+2) (fun l => hyp a b n (l+1)) = pows y (n+1) (hyp a b n) := by
        rw [← pows_succ']
        unfold pows
        rw [sum_range_succ, sum_range_succ, hyp_vanish a b n (n+2) (by omega), hyp_vanish a b n (n+1) (by omega)]
        simp
      rw [hR, hyp_R0 a b ha hb n]
      push_cast
      linear_combination
        (-((2 * ((n:K)+1) + a + b + 1) * (2 * ((n:K)+1) + a + b + 2) / (2 * (((n:K)+1) + 1) * (((n:K)+1) + a + b + 1))
          + (a * a - b * b) * (2 * ((n:K)+1) + a + b + 1) / (2 * (((n:K)+1) + 1) * (((n:K)+1) + a + b + 1) * (2 * ((n:K)+1) + a + b)))) * hT1
        + ((((n:K)+1) + a) * (((n:K)+1) + b) * (2 * ((n:K)+1) + a + b + 2) / ((((n:K)+1) + 1) * (((n:K)+1) + a + b + 1) * (2 * ((n:K)+1) + a + b))) * hT0
/-- rising factorial `(z)_k = z (z+1) ⋯ (z+k−1)` -/
def rising (z : K) (k : ℕ) : K := ∏ i ∈ range k, (z + i)

theorem rising_succ (z : K) (k : ℕ) : rising z (k+1) = rising z k * (z + k) := by
  simp [rising, prod_range_succ]
theorem rising_succ' (z : K) (k : ℕ) : rising z (k+1) = z * rising (z + 1) k := by
  simp only [rising, prod_range_succ']
  rw [mul_comm]; congr 1
  · simp
  · apply prod_congr rfl; intro i _; push_cast; ring

/-- DLMF 18.5.7: the coefficient of `((x−1)/2)^l` is `(n+α+β+1)_l (α+l+1)_{n−l} / (l! (n−l)!)` -/
theorem hyp_closed (a b : K) (ha : -1 < a) (hb : -1 < b) (n l : ℕ) (hl : l ≤ n) :
    hyp a b n l = rising ((n:K) + a + b + 1) l * rising (a + l + 1) (n - l) / ((l.factorial : K) * ((n - l).factorial : K)) := by
  induction l with
  | zero =>
    simp only [hyp, rising, prod_range_zero, one_mul, Nat.factorial_zero, Nat.cast_one, Nat.sub_zero, Nat.cast_zero, add_zero]
    induction n with
    | zero => simp
    | succ n ih =>
      have hn : ((n:K) + 1) ≠ 0 := by positivity
      have hf : ((n.factorial : ℕ) : K) ≠ 0 := by exact_mod_cast (Nat.factorial_pos n).ne'
      rw [prod_range_succ, prod_range_succ, ih (by omega) , Nat.factorial_succ]
      push_cast
      field_simp
      ring
  | succ l ih =>
    have hl' : l ≤ n := by omega
    obtain ⟨m, hm⟩ : ∃ m, n - l = m + 1 := ⟨n - l - 1, by omega⟩
    have hm' : n - (l + 1) = m := by omega
    have hnl : ((n:K) - l) = (m:K) + 1 := by
      have : (n:K) = l + (m + 1) := by exact_mod_cast (by omega : n = l + (m + 1))
      rw [this]; ring
    simp only [hyp]
    rw [ih hl', hm, hm', rising_succ ((n:K) + a + b + 1) l, rising_succ' (a + l + 1) m, Nat.factorial_succ l, Nat.factorial_succ m, hnl]
    have h1 : ((l:K) + 1) ≠ 0 := by positivity
    have h2 : (a + (l:K) + 1) ≠ 0 := by
      have : (0:K) ≤ l := Nat.cast_nonneg l
      nlinarith
    have h3 : ((m:K) + 1) ≠ 0 := by positivity
    have hf1 : ((l.factorial : ℕ) : K) ≠ 0 := by exact_mod_cast (Nat.factorial_pos l).ne'
    have hf2 : ((m.factorial : ℕ) : K) ≠ 0 := by exact_mod_cast (Nat.factorial_pos m).ne'
    push_cast
    have e : a + ((l:K) + 1) + 1 = a + l + 1 + 1 := by ring
    rw [e]
    field_simp
    ring

/-! ## Laguerre -/
/-- terms of DLMF 18.5.12, `L_n^{(α)}(x) = Σ_k (−1)^k (α+k+1)_{n−k} / ((n−k)! k!) x^k`:
    `e(n,0) = (α+1)_n/n!`, `e(n,k+1)/e(n,k) = −(n−k)/((k+1)(α+k+1))` -/
def lagTerm (a : K) (n : ℕ) : ℕ → K
  | 0 => ∏ k ∈ range n, ((k:K) + a + 1) / ((k:K) + 1)
  | k+1 => lagTerm a n k * (-((n:K) - k) / (((k:K) + 1) * (a + k + 1)))

theorem lagTerm_zero_succ (a : K) (n : ℕ) : lagTerm a (n+1) 0 = lagTerm a n 0 * (((n:K) + a + 1) / ((n:K) + 1)) := by
  simp only [lagTerm, prod_range_succ]

theorem lagTerm_vanish (a : K) (n k : ℕ) (h : n < k) : lagTerm a n k = 0 := by
  induction k with
  | zero => omega
  | succ k ih =>
    rcases Nat.lt_succ_iff_lt_or_eq.mp h with h' | h'
    · simp [lagTerm, ih h']
    · subst h'; simp [lagTerm]

theorem lagTerm_X (a : K) (ha : -1 < a) (n k : ℕ) :
    lagTerm a (n+1) k * ((n:K) + 1 - k) = lagTerm a n k * (a + n + 1) := by
  have hn : (0:K) ≤ n := Nat.cast_nonneg n
  induction k with
  | zero =>
    rw [lagTerm_zero_succ]
    have h1 : ((n:K) + 1) ≠ 0 := by positivity
    push_cast
    field_simp
    ring
  | succ k ih =>
    have hk : (0:K) ≤ k := Nat.cast_nonneg k
    have h1 : ((k:K) + 1) ≠ 0 := by positivity
    have h2 : (a + (k:K) + 1) ≠ 0 := by nlinarith
    simp only [lagTerm]
    push_cast
    field_simp
    linear_combination (-((n:K) - k)) * ih

theorem lagTerm_R (a : K) (ha : -1 < a) (n k : ℕ) :
    ((n:K) + 2) * lagTerm a (n+2) (k+1)
      = (2 * (n:K) + 3 + a) * lagTerm a (n+1) (k+1) - lagTerm a (n+1) k - ((n:K) + 1 + a) * lagTerm a n (k+1) := by
  have hn : (0:K) ≤ n := Nat.cast_nonneg n
  have hk : (0:K) ≤ k := Nat.cast_nonneg k
  have p1 : ((k:K) + 1) ≠ 0 := by positivity
  have p2 : (a + (k:K) + 1) ≠ 0 := by nlinarith
  have p4 : (a + (n:K) + 1) ≠ 0 := by nlinarith
  have h1 := lagTerm_X a ha (n+1) k
  have h0 := lagTerm_X a ha n k
  push_cast at h1 h0
  have E1 : lagTerm a (n+2) (k+1) * (((k:K)+1) * (a+k+1)) = - lagTerm a (n+1) k * (a + n + 2) := by
    simp only [lagTerm]; push_cast; field_simp
    linear_combination (-1 : K) * h1
  have E2 : lagTerm a n (k+1) * ((a + (n:K) + 1) * (((k:K)+1) * (a+k+1))) = - lagTerm a (n+1) k * (((n:K) + 1 - k) * ((n:K) - k)) := by
    simp only [lagTerm]; push_cast; field_simp
    linear_combination ((n:K) - k) * h0
  have E3 : lagTerm a (n+1) (k+1) * (((k:K)+1) * (a+k+1)) = - lagTerm a (n+1) k * ((n:K) + 1 - k) := by
    simp only [lagTerm]; push_cast; field_simp
  have e1 : lagTerm a (n+2) (k+1) = - lagTerm a (n+1) k * (a + n + 2) / (((k:K)+1) * (a+k+1)) := by
    rw [eq_div_iff (by positivity)]; exact E1
  have e2 : lagTerm a n (k+1) = - lagTerm a (n+1) k * (((n:K) + 1 - k) * ((n:K) - k)) / ((a + (n:K) + 1) * (((k:K)+1) * (a+k+1))) := by
    rw [eq_div_iff (by positivity)]; exact E2
  have e3 : lagTerm a (n+1) (k+1) = - lagTerm a (n+1) k * ((n:K) + 1 - k) / (((k:K)+1) * (a+k+1)) := by
    rw [eq_div_iff (by positivity)]; exact E3
  rw [e1, e2, e3]
  field_simp
  ring

theorem lagTerm_R0 (a : K) (ha : -1 < a) (n : ℕ) :
    ((n:K) + 2) * lagTerm a (n+2) 0 = (2 * (n:K) + 3 + a) * lagTerm a (n+1) 0 - ((n:K) + 1 + a) * lagTerm a n 0 := by
  have hn : (0:K) ≤ n := Nat.cast_nonneg n
  have p5 : ((n:K) + 1 + 1) ≠ 0 := by positivity
  have p8 : ((n:K) + 1) ≠ 0 := by positivity
  rw [lagTerm_zero_succ a (n+1), lagTerm_zero_succ a n]
  push_cast
  field_simp
  ring

def laguerreExplicit (a : K) (n : ℕ) (x : K) : K := pows x (n+1) (lagTerm a n)

/-- **the Laguerre recurrence family equals DLMF 18.5.12's explicit sum**, every order, every `α > −1`, every `x` -/
theorem laguerre_explicit (a : K) (ha : -1 < a) (x : K) (n : ℕ) :
    laguerre n a x = laguerreExplicit a n x := by
  induction n using Nat.strong_induction_on with
  | _ n ih =>
    match n with
    | 0 => simp [laguerre_zero, laguerreExplicit, pows, lagTerm]
    | 1 =>
      have h1 : (a + 1) ≠ 0 := by nlinarith
      simp [laguerre_one, laguerreExplicit, pows, lagTerm, sum_range_succ]
      field_simp
      ring
    | n+2 =>
      have hn : (0:K) ≤ n := Nat.cast_nonneg n
      have p5 : ((n:K) + 2) ≠ 0 := by positivity
      have key : ((n:K) + 2) * laguerre (n+2) a x = ((n:K) + 2) * laguerreExplicit a (n+2) x := by
        rw [laguerre_dlmf n a x, ih n (by omega), ih (n+1) (by omega)]
        simp only [laguerreExplicit]
        rw [pows_succ' x (n+2) (lagTerm a (n+2))]
        have hR : ((n:K) + 2) * pows x (n+2) (fun k => lagTerm a (n+2) (k+1))
            = (2 * (n:K) + 3 + a) * pows x (n+2) (fun k => lagTerm a (n+1) (k+1)) - pows x (n+2) (lagTerm a (n+1))
              - ((n:K) + 1 + a) * pows x (n+2) (fun k => lagTerm a n (k+1)) := by
          unfold pows
          simp only [mul_sum, ← sum_sub_distrib]
          apply sum_congr rfl
          intro k _
          linear_combination (x ^ k) * lagTerm_R a ha n k
        have hT1 : lagTerm a (n+1) 0 + x * pows x (n+2) (fun k => lagTerm a (n+1) (k+1)) = pows x (n+2) (lagTerm a (n+1)) := by
          rw [← pows_succ']
          unfold pows
          rw [sum_range_succ, lagTerm_vanish a (n+1) (n+2) (by omega)]
          simp
        have hT0 : lagTerm a n 0 + x * pows x (n+2) (fun k => lagTerm a n (k+1)) = pows x (n+1) (lagTerm a n) := by
          rw [← pows_succ']
          unfold pows
          rw [sum_range_succ, sum_range_succ, lagTerm_vanish a n (n+2) (by omega), lagTerm_vanish a n (n+1) (by omega)]
          simp
        linear_combination (-1 : K) * lagTerm_R0 a ha n - x * hR - (2 * (n:K) + 3 + a) * hT1 + ((n:K) + 1 + a) * hT0
      exact mul_left_cancel₀ p5 key

/-- DLMF 18.5.12: the coefficient of `x^k` is `(−1)^k (α+k+1)_{n−k} / ((n−k)! k!)` -/
theorem lagTerm_closed (a : K) (ha : -1 < a) (n k : ℕ) (hk : k ≤ n) :
    lagTerm a n k = (-1) ^ k * rising (a + k + 1) (n - k) / (((n - k).factorial : K) * (k.factorial : K)) := by
  induction k with
  | zero =>
    simp only [lagTerm, rising, pow_zero, one_mul, Nat.factorial_zero, Nat.cast_one, Nat.sub_zero, Nat.cast_zero, add_zero, mul_one]
    induction n with
    | zero => simp
    | succ n ih =>
      have hn : ((n:K) + 1) ≠ 0 := by positivity
      have hf : ((n.factorial : ℕ) : K) ≠ 0 := by exact_mod_cast (Nat.factorial_pos n).ne'
      rw [prod_range_succ, prod_range_succ, ih (by omega), Nat.factorial_succ]
      push_cast
      field_simp
      ring
  | succ k ih =>
    have hk' : k ≤ n := by omega
    obtain ⟨m, hm⟩ : ∃ m, n - k = m + 1 := ⟨n - k - 1, by omega⟩
    have hm' : n - (k + 1) = m := by omega
    have hnk : ((n:K) - k) = (m:K) + 1 := by
      have : (n:K) = k + (m + 1) := by exact_mod_cast (by omega : n = k + (m + 1))
      rw [this]; ring
    simp only [lagTerm]
    rw [ih hk', hm, hm', rising_succ' (a + k + 1) m, Nat.factorial_succ k, Nat.factorial_succ m, hnk]
    have h1 : ((k:K) + 1) ≠ 0 := by positivity
    have h2 : (a + (k:K) + 1) ≠ 0 := by
      have : (0:K) ≤ k := Nat.cast_nonneg k
      nlinarith
    have h3 : ((m:K) + 1) ≠ 0 := by positivity
    have hf1 : ((k.factorial : ℕ) : K) ≠ 0 := by exact_mod_cast (Nat.factorial_pos k).ne'
    have hf2 : ((m.factorial : ℕ) : K) ≠ 0 := by exact_mod_cast (Nat.factorial_pos m).ne'
    push_cast
    have e : a + ((k:K) + 1) + 1 = a + k + 1 + 1 := by ring
    rw [e]
    field_simp
    ring
end
end C07L
