import PrysmVerif.Lemmas.C10Base
import Mathlib.Logic.Function.Iterate
import Mathlib.Algebra.Polynomial.Derivative
import Mathlib.Algebra.Polynomial.FieldDivision
/-!
# C09 — the Clenshaw derivative table is the table of iterated derivatives

Abstract part: a commutative ring with a derivation `D`, an element `x` with `D x = 1`, a family and a
coefficient list made of `D`-constants.  Concrete part: `R = F[X]`, `D = Polynomial.derivative`, `x = X`,
then transport to numbers with `Polynomial.eval x₀`.
-/
set_option linter.unusedSectionVars false

namespace C10L
open Model.C10 Model.C09

/-- a derivation of a commutative ring (additive + Leibniz) -/
structure Der (R : Type) [CommRing R] where
  D : R → R
  map_add : ∀ a b, D (a + b) = D a + D b
  leibniz : ∀ a b, D (a * b) = a * D b + D a * b

section Abstract
variable {R : Type} [CommRing R] [Div R]

namespace Der
variable (d : Der R)

theorem map_zero : d.D 0 = 0 := by
  have := d.map_add 0 0; simp at this; exact this
theorem map_one : d.D 1 = 0 := by
  have := d.leibniz 1 1; simp at this; exact this
theorem map_neg (a : R) : d.D (-a) = -d.D a := by
  have := d.map_add a (-a); rw [add_neg_cancel, map_zero] at this
  linear_combination -this
theorem map_sub (a b : R) : d.D (a - b) = d.D a - d.D b := by
  rw [sub_eq_add_neg, map_add, map_neg]; ring
theorem map_natCast (n : ℕ) : d.D (n : R) = 0 := by
  induction n with
  | zero => simpa using d.map_zero
  | succ k ih => push_cast; rw [map_add, ih, map_one]; ring
theorem map_intCast (n : ℤ) : d.D (n : R) = 0 := by
  cases n with
  | ofNat k => simpa using d.map_natCast k
  | negSucc k =>
    rw [Int.cast_negSucc, map_neg]
    have := d.map_natCast (k+1)
    rw [this]; ring
theorem map_pow (a : R) (n : ℕ) : d.D (a ^ (n+1)) = ((n : R) + 1) * a ^ n * d.D a := by
  induction n with
  | zero => simp
  | succ k ih => rw [pow_succ, leibniz, ih]; push_cast; ring

theorem iter_zero (n : ℕ) : d.D^[n] 0 = 0 := by
  induction n with
  | zero => rfl
  | succ k ih => rw [Function.iterate_succ_apply, map_zero, ih]
theorem iter_add (n : ℕ) (a b : R) : d.D^[n] (a + b) = d.D^[n] a + d.D^[n] b := by
  induction n generalizing a b with
  | zero => rfl
  | succ k ih => rw [Function.iterate_succ_apply, map_add, ih]; rfl
theorem iter_sub (n : ℕ) (a b : R) : d.D^[n] (a - b) = d.D^[n] a - d.D^[n] b := by
  induction n generalizing a b with
  | zero => rfl
  | succ k ih => rw [Function.iterate_succ_apply, map_sub, ih]; rfl
theorem iter_const (n : ℕ) (c : R) (hc : d.D c = 0) : d.D^[n+1] c = 0 := by
  rw [Function.iterate_succ_apply, hc, iter_zero]
theorem const_mul (c y : R) (hc : d.D c = 0) : d.D (c * y) = c * d.D y := by
  rw [leibniz, hc]; ring
theorem mul_const (c y : R) (hc : d.D c = 0) : d.D (y * c) = d.D y * c := by
  rw [leibniz, hc]; ring
theorem iter_const_mul (n : ℕ) (c y : R) (hc : d.D c = 0) : d.D^[n] (c * y) = c * d.D^[n] y := by
  induction n generalizing y with
  | zero => rfl
  | succ k ih => rw [Function.iterate_succ_apply, const_mul d c y hc, ih]; rfl
theorem iter_mul_const (n : ℕ) (c y : R) (hc : d.D c = 0) : d.D^[n] (y * c) = d.D^[n] y * c := by
  rw [mul_comm, iter_const_mul d n c y hc, mul_comm]

/-- Leibniz for a multiplier that is linear in `x`:
`D^{n+1}[(a x + b) y] = (a x + b) D^{n+1} y + (n+1) a D^n y` -/
theorem iter_lin_mul (a b x y : R) (ha : d.D a = 0) (hb : d.D b = 0) (hx : d.D x = 1) (n : ℕ) :
    d.D^[n+1] ((a * x + b) * y) = (a * x + b) * d.D^[n+1] y + ((n : R) + 1) * a * d.D^[n] y := by
  have hlin : d.D (a * x + b) = a := by
    rw [map_add, const_mul d a x ha, hx, hb]; ring
  induction n with
  | zero =>
    simp only [Function.iterate_succ, Function.iterate_zero, Function.comp, id]
    rw [leibniz, hlin]; push_cast; ring
  | succ k ih =>
    rw [Function.iterate_succ_apply', ih, map_add, leibniz, hlin]
    have hc : d.D (((k : R) + 1) * a) = 0 := by
      rw [leibniz, ha, map_add, map_natCast, map_one]; ring
    rw [const_mul d _ _ hc]
    rw [← Function.iterate_succ_apply' d.D (k+1) y, ← Function.iterate_succ_apply' d.D k y]
    push_cast; ring
end Der

/-- the coefficients of a family are constants of the derivation -/
structure ConstFam (d : Der R) (G : Fam R) : Prop where
  a : ∀ n, d.D (G.a n) = 0
  b : ∀ n, d.D (G.b n) = 0
  c : ∀ n, d.D (G.c n) = 0
  e : ∀ n, d.D (G.e n) = 0
  p0 : d.D G.p0 = 0

theorem derRow_step (d : Der R) (G : Fam R) (hG : ConstFam d G) (x : R) (hx : d.D x = 1) (j : ℕ)
    (l : List R) (hl : ∀ s ∈ l, d.D s = 0) : ∀ k,
    derRow G x (j+1) k ((alphas G x k l).map d.D^[j]) = (alphas G x k l).map d.D^[j+1] := by
  induction l with
  | nil => intro k; simp [alphas, derRow]
  | cons s rest ih =>
    intro k
    have hs : d.D s = 0 := hl s (by simp)
    have ih' := ih (fun t ht => hl t (by simp [ht])) (k+1)
    simp only [alphas, List.map_cons, derRow]
    rw [ih']
    congr 1
    rw [hd_map _ (d.iter_zero _), hd_map _ (d.iter_zero _), ← List.map_tail, hd_map _ (d.iter_zero _)]
    rw [d.iter_sub, d.iter_add, d.iter_const j s hs, d.iter_lin_mul _ _ x _ (hG.a k) (hG.b k) hx,
      d.iter_const_mul _ _ _ (hG.c (k+1))]
    simp only [ofInt_eq]
    push_cast
    ring

/-- every row of the derivative table is the corresponding iterated derivative of row 0 -/
theorem derTable_eq (d : Der R) (G : Fam R) (hG : ConstFam d G) (x : R) (hx : d.D x = 1)
    (s : List R) (hs : ∀ t ∈ s, d.D t = 0) (j : ℕ) :
    derTable G x s j = (alphas G x 0 s).map d.D^[j] := by
  induction j with
  | zero => simp [derTable]
  | succ k ih => rw [derTable, ih, derRow_step d G hG x hx k s hs 0]

theorem esum_iter (d : Der R) (G : Fam R) (hG : ConstFam d G) (j : ℕ) (l : List R) : ∀ k,
    esum G k (l.map d.D^[j]) = d.D^[j] (esum G k l) := by
  induction l with
  | nil => intro k; simp [esum, d.iter_zero]
  | cons t rest ih =>
    intro k
    simp only [List.map_cons, esum, ih, d.iter_add, d.iter_const_mul _ _ _ (hG.e k)]

/-- reading a differentiated sweep = differentiating the read-out -/
theorem clenshawVal_iter (d : Der R) (G : Fam R) (hG : ConstFam d G) (j : ℕ) (l : List R) :
    clenshawVal G (l.map d.D^[j]) = d.D^[j] (clenshawVal G l) := by
  cases l with
  | nil => simp [clenshawVal, d.iter_zero]
  | cons a t =>
    simp only [List.map_cons, clenshawVal, esum_iter d G hG, d.iter_add, d.iter_mul_const _ _ _ hG.p0]

/-- **Clenshaw derivative, abstract form**: the read-out of row `j` is `D^j (Σ s_n p_n)` -/
theorem clenshaw_der_abstract (d : Der R) (G : Fam R) (hG : ConstFam d G) (x : R) (hx : d.D x = 1)
    (s : List R) (hs : ∀ t ∈ s, d.D t = 0) (j : ℕ) :
    clenshawVal G (derTable G x s j) = d.D^[j] (wsum (G.p x) 0 s) := by
  rw [derTable_eq d G hG x hx s hs, clenshawVal_iter d G hG, clenshaw_general]

/-- chain-rule form of the first row: if `D x = x'` then `D α_n = x' · α'_n` -/
theorem derRow_chain (d : Der R) (G : Fam R) (hG : ConstFam d G) (x x' : R) (hx : d.D x = x')
    (l : List R) (hl : ∀ s ∈ l, d.D s = 0) : ∀ k,
    (alphas G x k l).map d.D = (derRow G x 1 k (alphas G x k l)).map (x' * ·) := by
  induction l with
  | nil => intro k; simp [alphas, derRow]
  | cons s rest ih =>
    intro k
    have hs : d.D s = 0 := hl s (by simp)
    have ih' := ih (fun t ht => hl t (by simp [ht])) (k+1)
    simp only [alphas, List.map_cons, derRow]
    rw [← ih']
    congr 1
    have e1 : hd ((alphas G x (k+1) rest).map d.D) = d.D (hd (alphas G x (k+1) rest)) :=
      hd_map _ d.map_zero _
    have e2 : hd ((alphas G x (k+1) rest).map d.D).tail = d.D (hd (alphas G x (k+1) rest).tail) := by
      rw [← List.map_tail]; exact hd_map _ d.map_zero _
    rw [ih'] at e1 e2
    have f1 : hd ((derRow G x 1 (k+1) (alphas G x (k+1) rest)).map (x' * ·))
        = x' * hd (derRow G x 1 (k+1) (alphas G x (k+1) rest)) := hd_map _ (by simp) _
    have f2 : hd ((derRow G x 1 (k+1) (alphas G x (k+1) rest)).map (x' * ·)).tail
        = x' * hd (derRow G x 1 (k+1) (alphas G x (k+1) rest)).tail := by
      rw [← List.map_tail]; exact hd_map _ (by simp) _
    rw [f1] at e1; rw [f2] at e2
    rw [d.map_sub, d.map_add, hs, d.leibniz, d.map_add, d.const_mul _ _ (hG.a k), hx, hG.b k,
      d.const_mul _ _ (hG.c (k+1)), ← e1, ← e2]
    simp only [ofInt_eq]
    push_cast
    ring
end Abstract

/-! ### polynomials -/
section Poly
open Polynomial
variable {F : Type} [Field F]

/-- `d/dX` on `F[X]` -/
noncomputable def polyDer : Der F[X] where
  D := fun p => derivative p
  map_add := by intro a b; simp
  leibniz := by intro a b; rw [derivative_mul]; ring

/-- a family over `F`, read as a family of constant polynomials -/
noncomputable def liftP (G : Fam F) : Fam F[X] := Fam.mapHom (C : F →+* F[X]) G

@[simp] theorem liftP_a (G : Fam F) (n : ℕ) : (liftP G).a n = C (G.a n) := rfl
@[simp] theorem liftP_b (G : Fam F) (n : ℕ) : (liftP G).b n = C (G.b n) := rfl
@[simp] theorem liftP_c (G : Fam F) (n : ℕ) : (liftP G).c n = C (G.c n) := rfl
@[simp] theorem liftP_e (G : Fam F) (n : ℕ) : (liftP G).e n = C (G.e n) := rfl
@[simp] theorem liftP_p0 (G : Fam F) : (liftP G).p0 = C G.p0 := rfl

theorem liftP_const (G : Fam F) : ConstFam polyDer (liftP G) :=
  ⟨fun n => by simp [polyDer, liftP], fun n => by simp [polyDer, liftP], fun n => by simp [polyDer, liftP],
   fun n => by simp [polyDer, liftP], by simp [polyDer, liftP]⟩

theorem mapHom_eval_liftP (G : Fam F) (x₀ : F) : Fam.mapHom (evalRingHom x₀) (liftP G) = G := by
  cases G; simp [Fam.mapHom, liftP]

/-- the polynomial `Σ s_n p_n(X)` -/
noncomputable def sumPoly (G : Fam F) (s : List F) : F[X] := wsum ((liftP G).p X) 0 (s.map C)

theorem iterate_polyDer (j : ℕ) (q : F[X]) : (polyDer (F := F)).D^[j] q = derivative^[j] q := by
  induction j generalizing q with
  | zero => rfl
  | succ k ih => rw [Function.iterate_succ_apply, Function.iterate_succ_apply]; exact ih _

/-- evaluating the polynomial family at a point gives the numerical family -/
theorem eval_liftP_p (G : Fam F) (x₀ : F) (n : ℕ) : eval x₀ ((liftP G).p X n) = G.p x₀ n := by
  have := p_map (evalRingHom x₀) (liftP G) X n
  rw [mapHom_eval_liftP] at this
  simpa using this.symm

theorem eval_sumPoly (G : Fam F) (s : List F) (x₀ : F) : eval x₀ (sumPoly G s) = wsum (G.p x₀) 0 s := by
  unfold sumPoly
  have h := wsum_map (evalRingHom x₀) ((liftP G).p X) (s.map C) 0
  rw [List.map_map] at h
  have hid : (⇑(evalRingHom x₀) ∘ ⇑(C : F →+* F[X])) = id := by funext a; simp
  rw [hid, List.map_id] at h
  have hc := wsum_congr (fun n => (evalRingHom x₀) ((liftP G).p X n)) (G.p x₀)
    (fun n => by simpa using eval_liftP_p G x₀ n) s 0
  rw [hc] at h
  simpa using h.symm

/-- **row `j` of the table, entry by entry**: `α^{(j)}_n(x₀)` is the `j`-th derivative of the polynomial
`α_n(X)` evaluated at `x₀` -/
theorem derTable_poly (G : Fam F) (s : List F) (x₀ : F) (j : ℕ) :
    derTable G x₀ s j = (alphas (liftP G) X 0 (s.map C)).map (fun q => eval x₀ (derivative^[j] q)) := by
  have h1 := derTable_eq polyDer (liftP G) (liftP_const G) X (by simp [polyDer]) (s.map C)
    (by intro t ht; obtain ⟨a, _, rfl⟩ := List.mem_map.mp ht; simp [polyDer]) j
  have h2 := derTable_map (evalRingHom x₀) (liftP G) X (s.map C) j
  rw [mapHom_eval_liftP, List.map_map] at h2
  have hid : (⇑(evalRingHom x₀) ∘ ⇑(C : F →+* F[X])) = id := by funext a; simp
  rw [hid, List.map_id] at h2
  simp only [coe_evalRingHom, eval_X] at h2
  rw [h2, h1, List.map_map]
  congr 1

/-- **Clenshaw derivative, concrete form**: reading row `j` of the table computed at the number `x₀`
gives the `j`-th derivative of the polynomial `Σ s_n p_n(X)` at `x₀` — every family, every coefficient
list (any length), every `j`, every point. -/
theorem clenshaw_der_poly (G : Fam F) (s : List F) (x₀ : F) (j : ℕ) :
    clenshawVal G (derTable G x₀ s j) = eval x₀ (derivative^[j] (sumPoly G s)) := by
  have h1 := clenshaw_der_abstract polyDer (liftP G) (liftP_const G) X (by simp [polyDer]) (s.map C)
    (by intro t ht; obtain ⟨a, _, rfl⟩ := List.mem_map.mp ht; simp [polyDer]) j
  have h2 := derTable_map (evalRingHom x₀) (liftP G) X (s.map C) j
  rw [mapHom_eval_liftP, List.map_map] at h2
  have hid : (⇑(evalRingHom x₀) ∘ ⇑(C : F →+* F[X])) = id := by funext a; simp
  rw [hid, List.map_id] at h2
  simp only [coe_evalRingHom, eval_X] at h2
  have h3 := clenshawVal_map (evalRingHom x₀) (liftP G) (derTable (liftP G) X (s.map C) j)
  rw [mapHom_eval_liftP] at h3
  simp only [coe_evalRingHom] at h3
  rw [h2, h3, h1, iterate_polyDer]
  rfl
end Poly
end C10L
