import PrysmVerif.Lemmas.C03Fourier
import PrysmVerif.Model.C05
/-!
# C05 — lemmas about the mask-and-return path (orthogonality from the character law, all-pass identity, additivity)
-/
open C03Lemmas
open scoped C01
namespace C03Lemmas
open Model.C03 Model.C05
variable {R V : Type} [Field R] [Field V]


/-- root-of-unity orthogonality follows from: `e` is a character whose kernel is exactly `ℤ` -/
theorem orth_of_character [CharZero R] (e : R → V) (he : ∀ a b, e (a + b) = e a * e b)
    (hint : ∀ z : ℤ, e (z : R) = 1) (hker : ∀ t : R, e t = 1 → ∃ z : ℤ, t = z) (M : Nat) (hM : 0 < M) (d : ℤ) :
    ∑ l ∈ Finset.range M, e ((d : R) * (l : R) / (M : R)) = if (M : ℤ) ∣ d then (M : V) else 0 := by
  have he0 : e 0 = 1 := by simpa using hint 0
  have hMR : (M : R) ≠ 0 := by exact_mod_cast hM.ne'
  have hpow : ∀ l : ℕ, e ((d : R) * (l : R) / (M : R)) = e ((d : R) / (M : R)) ^ l := by
    intro l
    induction l with
    | zero => simp [he0]
    | succ l ih =>
      rw [pow_succ, ← ih, ← he]
      congr 1
      push_cast; ring
  rw [Finset.sum_congr rfl (fun l _ => hpow l)]
  by_cases hd : (M : ℤ) ∣ d
  · obtain ⟨q, rfl⟩ := hd
    have : e (((M : ℤ) * q : ℤ) / (M : R)) = 1 := by
      have h2 : (((M : ℤ) * q : ℤ) : R) / (M : R) = (q : R) := by
        push_cast; field_simp
      rw [h2]; exact hint q
    rw [Finset.sum_congr rfl (fun l _ => by rw [this, one_pow])]
    simp
  · have hw : e ((d : R) / (M : R)) ≠ 1 := by
      intro hw
      obtain ⟨z, hz⟩ := hker _ hw
      apply hd
      refine ⟨z, ?_⟩
      have h3 : (d : R) = ((M : ℤ) * z : ℤ) := by
        push_cast
        field_simp at hz
        rw [hz]
      exact_mod_cast h3
    have hwM : e ((d : R) / (M : R)) ^ M = 1 := by
      rw [← hpow M]
      have : (d : R) * (M : R) / (M : R) = (d : R) := by field_simp
      rw [this]; exact hint d
    rw [geom_sum_eq hw, hwM]
    simp [hd]


theorem mdft2_add (e : R → V) (m n M N : Nat) (αy αx sy sx : R) (norm : V) (f g : Nat → Nat → V) (k l : Nat) :
    mdft2 e m n M N αy αx sy sx norm (fun j i => f j i + g j i) k l
      = mdft2 e m n M N αy αx sy sx norm f k l + mdft2 e m n M N αy αx sy sx norm g k l := by
  simp only [mdft2, mdft1_add, mul_add]

theorem mdft2_smul (e : R → V) (m n M N : Nat) (αy αx sy sx : R) (norm a : V) (f : Nat → Nat → V) (k l : Nat) :
    mdft2 e m n M N αy αx sy sx norm (fun j i => a * f j i) k l = a * mdft2 e m n M N αy αx sy sx norm f k l := by
  simp only [mdft2, mdft1_smul, mul_left_comm]

/-- the mask-and-return path is additive in the mask -/
theorem maskAndBack_add_mask (e : R → V) (m n My Mx : Nat) (αy αx sy sx : R) (nf : V) (αy' αx' sy' sx' : R) (nb : V)
    (m₁ m₂ : Nat → Nat → V) (f : Nat → Nat → V) (j i : Nat) :
    maskAndBack e m n My Mx αy αx sy sx nf αy' αx' sy' sx' nb (fun k l => m₁ k l + m₂ k l) f j i
      = maskAndBack e m n My Mx αy αx sy sx nf αy' αx' sy' sx' nb m₁ f j i
        + maskAndBack e m n My Mx αy αx sy sx nf αy' αx' sy' sx' nb m₂ f j i := by
  simp only [maskAndBack, mul_add]
  exact mdft2_add _ _ _ _ _ _ _ _ _ _ _ _ _ _

/-- … and linear in the field -/
theorem maskAndBack_add_field (e : R → V) (m n My Mx : Nat) (αy αx sy sx : R) (nf : V) (αy' αx' sy' sx' : R) (nb : V)
    (mask : Nat → Nat → V) (f g : Nat → Nat → V) (j i : Nat) :
    maskAndBack e m n My Mx αy αx sy sx nf αy' αx' sy' sx' nb mask (fun a b => f a b + g a b) j i
      = maskAndBack e m n My Mx αy αx sy sx nf αy' αx' sy' sx' nb mask f j i
        + maskAndBack e m n My Mx αy αx sy sx nf αy' αx' sy' sx' nb mask g j i := by
  simp only [maskAndBack, mdft2_add, add_mul]

/-- all-pass mask on a band-complete grid: the round trip is `nf·nb·My·Mx` times the identity -/
theorem maskAndBack_allpass (e : R → V) (he : ∀ a b, e (a + b) = e a * e b) (he0 : e 0 = 1) (m n My Mx : Nat)
    (horthy : ∀ d : ℤ, ∑ l ∈ Finset.range My, e ((d : R) * (l : R) / (My : R)) = if (My : ℤ) ∣ d then (My : V) else 0)
    (horthx : ∀ d : ℤ, ∑ l ∈ Finset.range Mx, e ((d : R) * (l : R) / (Mx : R)) = if (Mx : ℤ) ∣ d then (Mx : V) else 0)
    (hm : m ≤ My) (hn : n ≤ Mx) (sy sx : R) (nf nb : V) (f : Nat → Nat → V) (j i : Nat) (hj : j < m) (hi : i < n) :
    maskAndBack e m n My Mx (1 / (My : R)) (1 / (Mx : R)) sy sx nf (1 / (My : R)) (1 / (Mx : R)) sy sx nb
      (fun _ _ => 1) f j i = nb * nf * (My : V) * (Mx : V) * f j i := by
  simp only [maskAndBack, mdft2, mul_one]
  -- inner x-leg: pull the y-sum (over j') and nf out of the return x-transform, then use the 1-D identity per row
  have hx : ∀ k : Nat, mdft1 (fun t => e (-t)) Mx n (1 / (Mx : R)) sx
        (fun l => nf * mdft1 e m My (1 / (My : R)) sy (fun j' => mdft1 e n Mx (1 / (Mx : R)) sx (f j') l) k) i
      = nf * ((Mx : V) * mdft1 e m My (1 / (My : R)) sy (fun j' => f j' i) k) := by
    intro k
    rw [mdft1_smul]
    congr 1
    have h1 : (fun l => mdft1 e m My (1 / (My : R)) sy (fun j' => mdft1 e n Mx (1 / (Mx : R)) sx (f j') l) k)
        = fun l => ∑ j' ∈ Finset.range m, e ((coord m j' - sy) * (coord My k - sy) * (1 / (My : R)))
            * mdft1 e n Mx (1 / (Mx : R)) sx (f j') l := by
      funext l
      rw [mdft1_eq_sum]
      exact Finset.sum_congr rfl fun j' _ => mul_comm _ _
    rw [h1, mdft1_sum]
    rw [Finset.sum_congr rfl (fun j' hj' => by
      rw [allpass_1d e he he0 n Mx horthx hn sx (f j') i hi])]
    rw [mdft1_eq_sum, Finset.mul_sum]
    exact Finset.sum_congr rfl fun j' _ => by ring
  rw [show (fun k => mdft1 (fun t => e (-t)) Mx n (1 / (Mx : R)) sx
        (fun l => nf * mdft1 e m My (1 / (My : R)) sy (fun j' => mdft1 e n Mx (1 / (Mx : R)) sx (f j') l) k) i)
      = fun k => (nf * (Mx : V)) * mdft1 e m My (1 / (My : R)) sy (fun j' => f j' i) k from by
        funext k; rw [hx k]; ring]
  rw [mdft1_smul, allpass_1d e he he0 m My horthy hm sy (fun j' => f j' i) j hj]
  ring


theorem mdft1_zero (e : R → V) (n N : Nat) (α s : R) (l : Nat) : mdft1 e n N α s (fun _ => 0) l = 0 := by
  simp [mdft1_eq_sum]

/-- 2-D pad-embedding invariance of the transform (constants unchanged) -/
theorem mdft2_embed (e : R → V) (m n m' n' M N : Nat) (hm : m ≤ m') (hn : n ≤ n') (αy αx sy sx : R) (norm : V)
    (f : Nat → Nat → V) (k l : Nat) :
    mdft2 e m' n' M N αy αx sy sx norm (embed m n m' n' f) k l = mdft2 e m n M N αy αx sy sx norm f k l := by
  simp only [mdft2]
  congr 1
  have h : (fun j => mdft1 e n' N αx sx (embed m n m' n' f j) l)
      = padded m m' (fun j0 => mdft1 e n N αx sx (f j0) l) := by
    funext j
    have hj : embed m n m' n' f j = fun i => padded m m' (fun j0 => padded n n' (f j0) i) j := rfl
    rw [hj]
    by_cases hc : m' / 2 - m / 2 ≤ j ∧ j < m' / 2 - m / 2 + m
    · have h1 : (fun i => padded m m' (fun j0 => padded n n' (f j0) i) j)
          = padded n n' (f (j - (m' / 2 - m / 2))) := by
        funext i; simp only [padded, hc, and_self, if_true]
      rw [h1, mdft1_pad_invariant e n n' N hn αx sx _ l]
      simp only [padded, hc, and_self, if_true]
    · have h1 : (fun i => padded m m' (fun j0 => padded n n' (f j0) i) j) = fun _ => 0 := by
        funext i; simp only [padded, hc, if_false, ofInt_eq, Int.cast_zero]
      rw [h1, mdft1_zero]
      simp only [padded, hc, if_false, ofInt_eq, Int.cast_zero]
  rw [h, mdft1_pad_invariant e m m' M hm]

end C03Lemmas
