import PrysmVerif.Lemmas.C09Der
import Mathlib.Algebra.CharZero.Defs
import Mathlib.Tactic.NormNum
/-!
# C09 — Hermite and Laguerre: the closed forms returned by the `_der` routines are the derivatives, all orders
-/
set_option linter.unusedSectionVars false
set_option linter.unusedSimpArgs false
namespace C10L
open Model.C10 Model.C09

section Hermite
variable {R : Type} [CommRing R] [Div R]

@[simp] theorem he_a (n : Nat) : (heFam (K := R)).a n = 1 := by simp [heFam]
@[simp] theorem he_b (n : Nat) : (heFam (K := R)).b n = 0 := by simp [heFam]
@[simp] theorem he_c (n : Nat) : (heFam (K := R)).c n = (n : R) := by simp [heFam]
@[simp] theorem he_e (n : Nat) : (heFam (K := R)).e n = 0 := by simp [heFam]
@[simp] theorem he_p0 : (heFam (K := R)).p0 = 1 := by simp [heFam]
@[simp] theorem h_a (n : Nat) : (hFam (K := R)).a n = 2 := by simp [hFam]
@[simp] theorem h_b (n : Nat) : (hFam (K := R)).b n = 0 := by simp [hFam]
@[simp] theorem h_c (n : Nat) : (hFam (K := R)).c n = 2 * (n : R) := by simp [hFam]
@[simp] theorem h_e (n : Nat) : (hFam (K := R)).e n = 0 := by simp [hFam]
@[simp] theorem h_p0 : (hFam (K := R)).p0 = 1 := by simp [hFam]

/-- `D He_{n+1} = (n+1) He_n` in every commutative ring with a derivation and `D x = 1` -/
theorem he_der_succ (d : Der R) (x : R) (hx : d.D x = 1) :
    ∀ n, d.D (heFam.p x (n+1)) = ((n : R) + 1) * heFam.p x n := by
  intro n
  induction n using Nat.twoStepInduction with
  | zero => simp [p_one, p_zero, hx]
  | one =>
    have e1 : (heFam (K := R)).p x 1 = x := by simp [p_one]
    have e2 : (heFam (K := R)).p x (1+1) = x * x - 1 := by
      rw [show (1+1 : ℕ) = 0+2 from rfl, p_succ_succ]; simp [e1, p_zero]
    rw [e2, e1, d.map_sub, d.leibniz, hx, d.map_one]; push_cast; ring
  | more k ih0 ih1 =>
    rw [p_succ_succ]
    simp only [he_a, he_b, he_c, he_e]
    have hc : d.D ((((k + 1 + 1 : ℕ)) : R)) = 0 := d.map_natCast _
    rw [d.map_add, d.map_sub, d.leibniz, d.leibniz, d.map_add, d.leibniz, d.map_one, d.map_zero, hx, hc, ih1, ih0]
    have e := p_succ_succ (heFam (K := R)) x k
    simp only [he_a, he_b, he_c, he_e] at e
    rw [e]
    push_cast; ring

theorem h_der_succ (d : Der R) (x : R) (hx : d.D x = 1) :
    ∀ n, d.D (hFam.p x (n+1)) = 2 * ((n : R) + 1) * hFam.p x n := by
  intro n
  have h2 : d.D (2 : R) = 0 := by simpa using d.map_natCast 2
  induction n using Nat.twoStepInduction with
  | zero => simp [p_one, p_zero, hx, d.map_add, d.leibniz, h2, d.map_zero]
  | one =>
    have e1 : (hFam (K := R)).p x 1 = 2 * x := by simp [p_one]
    have e2 : (hFam (K := R)).p x (1+1) = 2 * x * (2 * x) - 2 := by
      rw [show (1+1 : ℕ) = 0+2 from rfl, p_succ_succ]; simp [e1, p_zero]
    rw [e2, e1, d.map_sub, d.leibniz, d.leibniz, hx, h2]; push_cast; ring
  | more k ih0 ih1 =>
    rw [p_succ_succ]
    simp only [h_a, h_b, h_c, h_e]
    have hc : d.D ((((k + 1 + 1 : ℕ)) : R)) = 0 := d.map_natCast _
    rw [d.map_add, d.map_sub, d.leibniz, d.leibniz, d.map_add, d.leibniz, d.leibniz, h2, d.map_zero, hx, hc, ih1, ih0]
    have e := p_succ_succ (hFam (K := R)) x k
    simp only [h_a, h_b, h_c, h_e] at e
    rw [e]
    push_cast; ring
end Hermite

section Laguerre
variable {R : Type} [CommRing R] [Div R]

/-- Laguerre, abstract: two sequences obeying the (cleared-of-denominators) recurrences for shape `α` and
`α+1`; then `L_{n+1} = M_{n+1} - M_n` and `D L_{n+1} = -M_n` -/
theorem lag_contiguous (x al : R) (L M : ℕ → R)
    (hcancel : ∀ (n : ℕ) (a b : R), ((n : R) + 1) * a = ((n : R) + 1) * b → a = b)
    (hL0 : L 0 = 1) (hL1 : L 1 = al + 1 - x)
    (hL : ∀ n : ℕ, ((n : R) + 2) * L (n+2) = (al + 2 * ((n : R) + 1) + 1 - x) * L (n+1) - (al + ((n : R) + 1)) * L n)
    (hM0 : M 0 = 1) (hM1 : M 1 = al + 1 + 1 - x)
    (hM : ∀ n : ℕ, ((n : R) + 2) * M (n+2) = (al + 1 + 2 * ((n : R) + 1) + 1 - x) * M (n+1) - (al + 1 + ((n : R) + 1)) * M n) :
    ∀ n, L (n+1) = M (n+1) - M n := by
  intro n
  induction n using Nat.twoStepInduction with
  | zero => rw [hL1, hM1, hM0]; ring
  | one =>
    apply hcancel 1
    have a := hL 0; have b := hM 0
    simp only [Nat.cast_zero, Nat.cast_one] at a b ⊢
    rw [hL1, hL0] at a; rw [hM1, hM0] at b
    rw [hM1]
    linear_combination a - b
  | more k ih0 ih1 =>
    apply hcancel (k+2)
    have a := hL (k+1); have b := hM (k+1); have c := hM k
    push_cast at a b c ⊢
    rw [ih1, ih0] at a
    linear_combination a - b + c

theorem lag_der (d : Der R) (x al : R) (hx : d.D x = 1) (hal : d.D al = 0) (L M : ℕ → R)
    (hcancel : ∀ (n : ℕ) (a b : R), ((n : R) + 1) * a = ((n : R) + 1) * b → a = b)
    (hL0 : L 0 = 1) (hL1 : L 1 = al + 1 - x)
    (hL : ∀ n : ℕ, ((n : R) + 2) * L (n+2) = (al + 2 * ((n : R) + 1) + 1 - x) * L (n+1) - (al + ((n : R) + 1)) * L n)
    (hM0 : M 0 = 1) (hM1 : M 1 = al + 1 + 1 - x)
    (hM : ∀ n : ℕ, ((n : R) + 2) * M (n+2) = (al + 1 + 2 * ((n : R) + 1) + 1 - x) * M (n+1) - (al + 1 + ((n : R) + 1)) * M n) :
    ∀ n, d.D (L (n+1)) = -M n := by
  have hA := lag_contiguous x al L M hcancel hL0 hL1 hL hM0 hM1 hM
  have hDL0 : d.D (L 0) = 0 := by rw [hL0, d.map_one]
  -- D applied to the recurrence
  have hD : ∀ n : ℕ, ((n : R) + 2) * d.D (L (n+2)) =
      -L (n+1) + (al + 2 * ((n : R) + 1) + 1 - x) * d.D (L (n+1)) - (al + ((n : R) + 1)) * d.D (L n) := by
    intro n
    have h := congrArg d.D (hL n)
    have c1 : d.D ((n : R) + 2) = 0 := by
      have := d.map_natCast (n+2); push_cast at this; exact this
    have c2 : d.D (al + 2 * ((n : R) + 1) + 1 - x) = -1 := by
      have h2 : d.D (2 * ((n : R) + 1)) = 0 := by
        have := d.map_natCast (2 * (n+1)); push_cast at this; exact this
      rw [d.map_sub, d.map_add, d.map_add, hal, h2, d.map_one, hx]; ring
    have c3 : d.D (al + ((n : R) + 1)) = 0 := by
      have := d.map_natCast (n+1); push_cast at this
      rw [d.map_add, hal, this]; ring
    rw [d.leibniz, c1, d.map_sub, d.leibniz, c2, d.leibniz, c3] at h
    linear_combination h
  intro n
  induction n using Nat.twoStepInduction with
  | zero => rw [hL1, hM0, d.map_sub, d.map_add, hal, d.map_one, hx]; ring
  | one =>
    apply hcancel 1
    have a := hD 0
    have e0 : d.D (L 1) = -M 0 := by rw [hL1, hM0, d.map_sub, d.map_add, hal, d.map_one, hx]; ring
    simp only [Nat.cast_zero, Nat.cast_one] at a ⊢
    rw [e0, hDL0, hL1, hM0] at a
    rw [hM1]
    linear_combination a
  | more k ih0 ih1 =>
    apply hcancel (k+2)
    have a := hD (k+1); have c := hM k; have hA1 := hA (k+1)
    push_cast at a c ⊢
    rw [ih1, ih0, hA1] at a
    linear_combination a + c
end Laguerre

open Polynomial
variable {F : Type} [Field F] [CharZero F]

theorem lag_coef (al : F) (n : ℕ) :
    (((n : F[X]) + 2) * C ((lagFam al).a (n+1)) = -1) ∧
    (((n : F[X]) + 2) * C ((lagFam al).b (n+1)) = C al + 2 * ((n : F[X]) + 1) + 1) ∧
    (((n : F[X]) + 2) * C ((lagFam al).c (n+1)) = C al + ((n : F[X]) + 1)) ∧
    (lagFam al).e (n+1) = 0 := by
  have hn : ((n : F) + 1 + 1) ≠ 0 := by
    have : ((n : F) + 1 + 1) = ((n + 2 : ℕ) : F) := by push_cast; ring
    rw [this]; exact Nat.cast_ne_zero.mpr (by omega)
  have hC : ((n : F[X]) + 2) = C ((n : F) + 1 + 1) := by simp; ring
  refine ⟨?_, ?_, ?_, ?_⟩
  · rw [hC, ← C_mul]
    have : ((n : F) + 1 + 1) * (lagFam al).a (n+1) = -1 := by simp [lagFam]; field_simp
    rw [this]; simp
  · rw [hC, ← C_mul]
    have : ((n : F) + 1 + 1) * (lagFam al).b (n+1) = al + 2 * ((n : F) + 1) + 1 := by
      simp [lagFam]; field_simp; ring
    rw [this]; simp [map_ofNat]
  · rw [hC, ← C_mul]
    have : ((n : F) + 1 + 1) * (lagFam al).c (n+1) = al + ((n : F) + 1) := by
      simp [lagFam]; field_simp
    rw [this]; simp
  · simp [lagFam]


/-- the Laguerre polynomial of shape `al` as a polynomial -/
noncomputable def lagPoly (al : F) (n : ℕ) : F[X] := (liftP (lagFam al)).p X n

theorem lagPoly_zero (al : F) : lagPoly al 0 = 1 := by
  simp [lagPoly, p_zero, lagFam]
theorem lagPoly_one (al : F) : lagPoly al 1 = C al + 1 - X := by
  simp [lagPoly, p_one, lagFam]; ring
theorem lagPoly_rec (al : F) (n : ℕ) :
    ((n : F[X]) + 2) * lagPoly al (n+2) =
      (C al + 2 * ((n : F[X]) + 1) + 1 - X) * lagPoly al (n+1) - (C al + ((n : F[X]) + 1)) * lagPoly al n := by
  obtain ⟨ha, hb, hc, he⟩ := lag_coef al n
  simp only [lagPoly]
  rw [p_succ_succ]
  simp only [liftP_a, liftP_b, liftP_c, liftP_e, he, map_zero]
  linear_combination (X * (liftP (lagFam al)).p X (n+1)) * ha + ((liftP (lagFam al)).p X (n+1)) * hb
    - ((liftP (lagFam al)).p X n) * hc

theorem poly_cancel (n : ℕ) (a b : F[X]) (h : ((n : F[X]) + 1) * a = ((n : F[X]) + 1) * b) : a = b := by
  have hne : ((n : F[X]) + 1) ≠ 0 := by
    have : ((n : F[X]) + 1) = C ((n : F) + 1) := by simp
    rw [this, Ne, C_eq_zero]
    have : ((n : F) + 1) = ((n + 1 : ℕ) : F) := by push_cast; ring
    rw [this]; exact Nat.cast_ne_zero.mpr (by omega)
  exact mul_left_cancel₀ hne h

/-- **Laguerre derivative, all orders**: `d/dX L_{n+1}^{(α)} = -L_n^{(α+1)}` as polynomials -/
theorem lag_der_poly (al : F) (n : ℕ) : derivative (lagPoly al (n+1)) = -lagPoly (al + 1) n := by
  have := lag_der (R := F[X]) polyDer X (C al) (by simp [polyDer]) (by simp [polyDer])
    (lagPoly al) (lagPoly (al + 1)) poly_cancel (lagPoly_zero al) (lagPoly_one al) (lagPoly_rec al)
    (lagPoly_zero _) (by rw [lagPoly_one]; simp) (by intro k; have := lagPoly_rec (al + 1) k; simpa using this) n
  simpa [polyDer] using this

theorem lag_der_eval (al x₀ : F) (n : ℕ) : eval x₀ (derivative (lagPoly al n)) = lagDer n al x₀ := by
  cases n with
  | zero => simp [lagPoly_zero, lagDer]
  | succ k =>
    rw [lag_der_poly]
    simp only [eval_neg, lagDer, lagPoly]
    rw [eval_liftP_p]
    simp

/-! ### Hermite, concrete -/
omit [CharZero F] in
theorem liftP_he : liftP (heFam (K := F)) = heFam (K := F[X]) := by
  unfold liftP Fam.mapHom heFam
  congr 1 <;> (try funext n) <;> simp
omit [CharZero F] in
theorem liftP_h : liftP (hFam (K := F)) = hFam (K := F[X]) := by
  unfold liftP Fam.mapHom hFam
  congr 1 <;> (try funext n) <;> simp

/-- `He_n` and `H_n` as polynomials -/
noncomputable def hePoly (n : ℕ) : F[X] := (liftP (heFam (K := F))).p X n
noncomputable def hPoly (n : ℕ) : F[X] := (liftP (hFam (K := F))).p X n

omit [CharZero F] in
/-- **`hermite_He_der`, all orders**: `n He_{n-1}(x₀)` is the derivative of the polynomial `He_n` at `x₀` -/
theorem he_der_eval (x₀ : F) (n : ℕ) : eval x₀ (derivative (hePoly (F := F) n)) = heDer n x₀ := by
  cases n with
  | zero => rw [hePoly, p_zero, liftP_p0]; simp [heDer]
  | succ k =>
    have h := he_der_succ (R := F[X]) polyDer X (by simp [polyDer]) k
    rw [← liftP_he] at h
    simp only [polyDer] at h
    simp only [hePoly, h, eval_mul, eval_add, eval_natCast, eval_one, eval_liftP_p, heDer, ofInt_eq]
    push_cast; ring

omit [CharZero F] in
/-- **`hermite_H_der`, all orders** -/
theorem h_der_eval (x₀ : F) (n : ℕ) : eval x₀ (derivative (hPoly (F := F) n)) = hDer n x₀ := by
  cases n with
  | zero => rw [hPoly, p_zero, liftP_p0]; simp [hDer]
  | succ k =>
    have h := h_der_succ (R := F[X]) polyDer X (by simp [polyDer]) k
    rw [← liftP_h] at h
    simp only [polyDer] at h
    simp only [hPoly, h, eval_mul, eval_add, eval_natCast, eval_one, eval_ofNat, eval_liftP_p, hDer, ofInt_eq]
    push_cast; ring
end C10L
