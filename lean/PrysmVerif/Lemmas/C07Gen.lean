import PrysmVerif.Generated.C07
import PrysmVerif.Lemmas.C07Field
import PrysmVerif.Lemmas.C07Hermite
/-!
# C07 — the translated scalar evaluators (`Generated.C07`: `recurrence_abc`, `jacobi`, `hermite_He`, `hermite_H`, `laguerre`,
`dickson1`, `dickson2`, loops included) compute the hand model, for every order.

Kept in a lemma file because both `Props/C07.lean` and `Props/C08.lean` need them (C08 states its seq theorems over these
translated scalar functions); `Props/C07.lean` restates them as audited theorems.  Loop invariants are written with the
generated accessor abbreviations `<fn>_st_<var>`, never with tuple positions; every proof has a branch for the fallback text.
-/
set_option linter.unusedTactic false
set_option linter.unreachableTactic false
set_option linter.unusedSectionVars false
set_option linter.unusedSimpArgs false
set_option linter.unusedVariables false

namespace C07L
open Model.C07

section
variable {K : Type} [Field K] [DecidableEq K] [CharZero K]

theorem gen_abc_general (n a b : K) (h : ¬ (n = 0 ∧ (a + b = 0 ∨ a + b = -1))) :
    Generated.C07.abc n a b = abcK n a b := by
  simp only [Generated.C07.abc, ofInt_eq, Int.cast_zero, Int.reduceNeg, Int.cast_neg, Int.cast_one, if_neg h]
  try simp [abcK, pow_two]

theorem gen_abc_special (a b : K) (h : a + b = 0 ∨ a + b = -1) :
    Generated.C07.abc 0 a b = abc0 a b := by
  rcases h with h | h <;> simp [Generated.C07.abc, abc0, h]

theorem gen_abc_nat (n : ℕ) (a b : K) : Generated.C07.abc ((n:K) + 1) a b = abc (n+1) a b := by
  rw [gen_abc_general]
  · simp [abc]
  · rintro ⟨h, _⟩
    exact Nat.cast_add_one_ne_zero n h

theorem gen_jacobi (n : ℕ) (a b x : K) : Generated.C07.jacobi (n : ℤ) a b x = jacobi n a b x := by
  first
  | (show Model.C07.jacobi _ _ _ _ = _; simp)
  | (
      match n with
      | 0 => simp [Generated.C07.jacobi, jacobi_zero]
      | 1 => simp [Generated.C07.jacobi, jacobi_one, jacP1]
      | n+2 =>
        have h0 : ¬ (((n + 2 : ℕ) : ℤ) = 0) := by omega
        have h1 : ¬ (((n + 2 : ℕ) : ℤ) = 1) := by omega
        have e1 : Generated.C07.abc (1:K) a b = abc 1 a b := by simpa using gen_abc_nat 0 a b
        have P2 : ((Generated.C07.abc (1:K) a b).1 * x + (Generated.C07.abc (1:K) a b).2.1) * (a + 1 + (a + b + 2) * ((x - 1) / 2))
            - (Generated.C07.abc (1:K) a b).2.2 = jacobi 2 a b x := by
          rw [e1, jacobi_succ_succ, jacobi_one, jacobi_zero]; simp [jacStep, jacP1]
        unfold Generated.C07.jacobi
        simp only [if_neg h0, if_neg h1, ofInt_eq, Int.cast_one, Int.cast_ofNat, Int.cast_zero]
        split
        · rename_i h
          have : n = 0 := by omega
          subst this
          exact P2
        · rw [show ((n+2:ℕ):ℤ) + 1 = 3 + (n:ℕ) by push_cast; ring]
          refine (forRange_induct (fun k s => Generated.C07.jacobi_st_Pnm1 s = jacobi (k+1) a b x ∧ Generated.C07.jacobi_st_Pn s = jacobi (k+2) a b x)
            3 _ _ ?_ ?_ n).2
          · exact ⟨by simp [jacobi_one, jacP1], P2⟩
          · rintro k s ⟨hs1, hs2⟩
            dsimp only [Generated.C07.jacobi_st_Pn, Generated.C07.jacobi_st_Pnm1] at hs1 hs2 ⊢
            refine ⟨hs2, ?_⟩
            have hc : (((3 + (k:ℤ) - 1 : ℤ)) : K) = ((k + 1 : ℕ) : K) + 1 := by push_cast; ring
            rw [hs1, hs2, hc, gen_abc_nat, jacobi_succ_succ (k+1)]
            simp [jacStep])

theorem gen_hermiteHe (n : ℕ) (x : K) : Generated.C07.hermiteHe (n : ℤ) x = hermiteHe n x := by
  first
  | (show Model.C07.hermiteHe _ _ = _; simp)
  | (
      match n with
      | 0 => simp [Generated.C07.hermiteHe, hermiteHe_zero]
      | 1 => simp [Generated.C07.hermiteHe, hermiteHe_one]
      | n+2 =>
        have h0 : ¬ (((n + 2 : ℕ) : ℤ) = 0) := by omega
        have h1 : ¬ (((n + 2 : ℕ) : ℤ) = 1) := by omega
        have P2 : x * x - 1 = hermiteHe 2 x := by rw [hermiteHe_succ_succ, hermiteHe_one, hermiteHe_zero]; simp
        unfold Generated.C07.hermiteHe
        simp only [if_neg h0, if_neg h1, ofInt_eq, Int.cast_one, Int.cast_ofNat, Int.cast_zero]
        split
        · rename_i h
          have : n = 0 := by omega
          subst this
          exact P2
        · rename_i h
          obtain ⟨m, rfl⟩ : ∃ m, n = m + 1 := ⟨n - 1, by omega⟩
          rw [show ((m+1+2:ℕ):ℤ) + 1 = 3 + ((m+1 : ℕ):ℤ) by push_cast; ring]
          refine (forRange_induct (fun k s => Generated.C07.hermiteHe_st_Pnm2 s = hermiteHe (k+1) x ∧ Generated.C07.hermiteHe_st_Pnm1 s = hermiteHe (k+2) x
              ∧ (1 ≤ k → Generated.C07.hermiteHe_st_Pn s = hermiteHe (k+2) x)) 3 _ _ ?_ ?_ (m+1)).2.2 (by omega)
          · exact ⟨by simp [hermiteHe_one], P2, by omega⟩
          · rintro k s ⟨hs1, hs2, -⟩
            dsimp only [Generated.C07.hermiteHe_st_Pn, Generated.C07.hermiteHe_st_Pnm1, Generated.C07.hermiteHe_st_Pnm2] at hs1 hs2 ⊢
            refine ⟨hs2, ?_, fun _ => ?_⟩ <;> (rw [hs1, hs2, hermiteHe_succ_succ (k+1)]; push_cast; ring))

theorem gen_hermiteH (n : ℕ) (x : K) : Generated.C07.hermiteH (n : ℤ) x = hermiteH n x := by
  first
  | (show Model.C07.hermiteH _ _ = _; simp)
  | (
      match n with
      | 0 => simp [Generated.C07.hermiteH, hermiteH_zero]
      | 1 => simp [Generated.C07.hermiteH, hermiteH_one]
      | n+2 =>
        have h0 : ¬ (((n + 2 : ℕ) : ℤ) = 0) := by omega
        have h1 : ¬ (((n + 2 : ℕ) : ℤ) = 1) := by omega
        have P2 : 4 * (x * x) - 2 = hermiteH 2 x := by
          rw [hermiteH_succ_succ, hermiteH_one, hermiteH_zero]; simp; ring
        unfold Generated.C07.hermiteH
        simp only [if_neg h0, if_neg h1, ofInt_eq, Int.cast_one, Int.cast_ofNat, Int.cast_zero]
        split
        · rename_i h
          have : n = 0 := by omega
          subst this
          exact P2
        · rename_i h
          obtain ⟨m, rfl⟩ : ∃ m, n = m + 1 := ⟨n - 1, by omega⟩
          rw [show ((m+1+2:ℕ):ℤ) + 1 = 3 + ((m+1 : ℕ):ℤ) by push_cast; ring]
          refine (forRange_induct (fun k s => Generated.C07.hermiteH_st_Pnm2 s = hermiteH (k+1) x ∧ Generated.C07.hermiteH_st_Pnm1 s = hermiteH (k+2) x
              ∧ (1 ≤ k → Generated.C07.hermiteH_st_Pn s = hermiteH (k+2) x)) 3 _ _ ?_ ?_ (m+1)).2.2 (by omega)
          · exact ⟨by simp [hermiteH_one], P2, by omega⟩
          · rintro k s ⟨hs1, hs2, -⟩
            dsimp only [Generated.C07.hermiteH_st_Pn, Generated.C07.hermiteH_st_Pnm1, Generated.C07.hermiteH_st_Pnm2] at hs1 hs2 ⊢
            refine ⟨hs2, ?_, fun _ => ?_⟩ <;> (rw [hs1, hs2, hermiteH_succ_succ (k+1)]; push_cast; ring))

theorem gen_laguerre (n : ℕ) (al x : K) : Generated.C07.laguerre (n : ℤ) al x = laguerre n al x := by
  first
  | (show Model.C07.laguerre _ _ _ = _; simp)
  | (
      match n with
      | 0 => simp [Generated.C07.laguerre, laguerre_zero]
      | 1 => simp [Generated.C07.laguerre, laguerre_one]
      | n+2 =>
        have h0 : ¬ (((n + 2 : ℕ) : ℤ) = 0) := by omega
        have h1 : ¬ (((n + 2 : ℕ) : ℤ) = 1) := by omega
        have P2 : (1:K) / 2 * ((al + 3 - x) * (al + 1 - x) - (al + 1) * 1) = laguerre 2 al x := by
          rw [laguerre_succ_succ, laguerre_one, laguerre_zero]; simp; ring
        unfold Generated.C07.laguerre
        simp only [if_neg h0, if_neg h1, ofInt_eq, ofFrac_eq, Int.cast_one, Int.cast_ofNat, Int.cast_zero, Nat.cast_ofNat]
        split
        · rename_i h
          have : n = 0 := by omega
          subst this
          exact P2
        · rw [show ((n+2:ℕ):ℤ) + 1 = 3 + (n:ℕ) by push_cast; ring]
          refine (forRange_induct (fun k s => Generated.C07.laguerre_st_Lnp1 s = laguerre (k+2) al x
              ∧ Generated.C07.laguerre_st_Ln s = laguerre (k+2) al x ∧ Generated.C07.laguerre_st_Lnm1 s = laguerre (k+1) al x) 3 _ _ ?_ ?_ n).1
          · exact ⟨P2, P2, by simp [laguerre_one]⟩
          · rintro k s ⟨-, hs2, hs3⟩
            dsimp only [Generated.C07.laguerre_st_Lnp1, Generated.C07.laguerre_st_Ln, Generated.C07.laguerre_st_Lnm1] at hs2 hs3 ⊢
            refine ⟨?_, ?_, hs2⟩ <;> (rw [hs2, hs3, laguerre_succ_succ (k+1)]; push_cast; ring))

theorem gen_dickson1 (n : ℕ) (al x : K) : Generated.C07.dickson1 (n : ℤ) al x = dickson1 n al x := by
  first
  | (show Model.C07.dickson1 _ _ _ = _; simp)
  | (
      match n with
      | 0 => simp [Generated.C07.dickson1, dickson1, dickPair]
      | 1 => simp [Generated.C07.dickson1, dickson1, dickPair]
      | n+2 =>
        have h0 : ¬ (((n + 2 : ℕ) : ℤ) = 0) := by omega
        have h1 : ¬ (((n + 2 : ℕ) : ℤ) = 1) := by omega
        unfold Generated.C07.dickson1
        simp only [if_neg h0, if_neg h1, ofInt_eq, Int.cast_one, Int.cast_ofNat, Int.cast_zero]
        rw [show ((n+2:ℕ):ℤ) + 1 = 2 + ((n+1:ℕ):ℤ) by push_cast; ring]
        refine (forRange_induct (fun k s => Generated.C07.dickson1_st_Pnm1 s = dickson1 (k+1) al x ∧ Generated.C07.dickson1_st_Pnm2 s = dickson1 k al x
            ∧ (1 ≤ k → Generated.C07.dickson1_st_Pn s = dickson1 (k+1) al x)) 2 _ _ ?_ ?_ (n+1)).2.2 (by omega)
        · exact ⟨by simp [dickson1, dickPair], by simp [dickson1, dickPair], by omega⟩
        · rintro k s ⟨hs1, hs2, -⟩
          dsimp only [Generated.C07.dickson1_st_Pn, Generated.C07.dickson1_st_Pnm1, Generated.C07.dickson1_st_Pnm2] at hs1 hs2 ⊢
          refine ⟨?_, hs1, fun _ => ?_⟩ <;> (rw [hs1, hs2]; simp only [dickson1]; rw [dickPair_succ_succ]))

theorem gen_dickson2 (n : ℕ) (al x : K) : Generated.C07.dickson2 (n : ℤ) al x = dickson2 n al x := by
  first
  | (show Model.C07.dickson2 _ _ _ = _; simp)
  | (
      match n with
      | 0 => simp [Generated.C07.dickson2, dickson2, dickPair]
      | 1 => simp [Generated.C07.dickson2, dickson2, dickPair]
      | n+2 =>
        have h0 : ¬ (((n + 2 : ℕ) : ℤ) = 0) := by omega
        have h1 : ¬ (((n + 2 : ℕ) : ℤ) = 1) := by omega
        unfold Generated.C07.dickson2
        simp only [if_neg h0, if_neg h1, ofInt_eq, Int.cast_one, Int.cast_ofNat, Int.cast_zero]
        rw [show ((n+2:ℕ):ℤ) + 1 = 2 + ((n+1:ℕ):ℤ) by push_cast; ring]
        refine (forRange_induct (fun k s => Generated.C07.dickson2_st_Pnm1 s = dickson2 (k+1) al x ∧ Generated.C07.dickson2_st_Pnm2 s = dickson2 k al x
            ∧ (1 ≤ k → Generated.C07.dickson2_st_Pn s = dickson2 (k+1) al x)) 2 _ _ ?_ ?_ (n+1)).2.2 (by omega)
        · exact ⟨by simp [dickson2, dickPair], by simp [dickson2, dickPair], by omega⟩
        · rintro k s ⟨hs1, hs2, -⟩
          dsimp only [Generated.C07.dickson2_st_Pn, Generated.C07.dickson2_st_Pnm1, Generated.C07.dickson2_st_Pnm2] at hs1 hs2 ⊢
          refine ⟨?_, hs1, fun _ => ?_⟩ <;> (rw [hs1, hs2]; simp only [dickson2]; rw [dickPair_succ_succ]))
end
section qbfs
variable {K : Type} [Field K] [DecidableEq K] [CharZero K]

/-- one step of the model's coupled `(P, Q)` recurrence for Qbfs, written out -/
theorem qbfsPQ_step (sqrt : K → K) (rho : K) (n : ℕ) :
    qbfsPQ sqrt rho (n+1) =
      ((qbfsPQ sqrt rho n).2.1, (2 - 4 * rho) * (qbfsPQ sqrt rho n).2.1 - (qbfsPQ sqrt rho n).1,
       (qbfsPQ sqrt rho n).2.2.2,
       ((2 - 4 * rho) * (qbfsPQ sqrt rho n).2.1 - (qbfsPQ sqrt rho n).1 - qbfsG sqrt (n+1) * (qbfsPQ sqrt rho n).2.2.2
          - qbfsH n (qbfsF sqrt n) * (qbfsPQ sqrt rho n).2.2.1) * (1 / qbfsF sqrt (n+2))) := by
  simp [qbfsPQ]

/-- the translated body of `Qbfs` (loop included) computes the model's `qbfs sqrt n x`, every `n`, every `sqrt` -/
theorem gen_qbfs (sqrt : K → K) (n : ℕ) (x : K) : Generated.C07.qbfs sqrt (n : ℤ) x = qbfs sqrt n x := by
  first
  | (show Model.C07.qbfs _ _ _ = _; simp)
  | (
      match n with
      | 0 => simp [Generated.C07.qbfs, qbfs, qbfsPQ, pow_two]
      | 1 => simp [Generated.C07.qbfs, qbfs, qbfsPQ, pow_two]
      | n+2 =>
        have h0 : ¬ (((n + 2 : ℕ) : ℤ) = 0) := by omega
        have h1 : ¬ (((n + 2 : ℕ) : ℤ) = 1) := by omega
        unfold Generated.C07.qbfs
        simp only [if_neg h0, if_neg h1, ofInt_eq, npow_eq, Int.cast_one, Int.cast_ofNat, Int.cast_zero]
        rw [show ((n+2:ℕ):ℤ) + 1 = 2 + ((n+1:ℕ):ℤ) by push_cast; ring]
        rw [show qbfs sqrt (n+2) x = (qbfsPQ sqrt (x*x) (n+1)).2.2.2 * (x*x*(1-x*x)) from by
          simp [qbfs, qbfsPQ_step]]
        congr 1
        · refine (forRange_induct (fun k s =>
              Generated.C07.qbfs_st_Pnm2 s = (qbfsPQ sqrt (x*x) k).1 ∧ Generated.C07.qbfs_st_Pnm1 s = (qbfsPQ sqrt (x*x) k).2.1
              ∧ Generated.C07.qbfs_st_Qnm2 s = (qbfsPQ sqrt (x*x) k).2.2.1 ∧ Generated.C07.qbfs_st_Qnm1 s = (qbfsPQ sqrt (x*x) k).2.2.2
              ∧ (1 ≤ k → Generated.C07.qbfs_st_Qn s = (qbfsPQ sqrt (x*x) k).2.2.2)) 2 _ _ ?_ ?_ (n+1)).2.2.2.2 (by omega)
          · simp [qbfsPQ, pow_two]
          · rintro k s ⟨hs1, hs2, hs3, hs4, -⟩
            dsimp only [Generated.C07.qbfs_st_Pn, Generated.C07.qbfs_st_Pnm1, Generated.C07.qbfs_st_Pnm2, Generated.C07.qbfs_st_Qn, Generated.C07.qbfs_st_Qnm1, Generated.C07.qbfs_st_Qnm2] at hs1 hs2 hs3 hs4 ⊢
            have eg : qbfsGi sqrt (2 + (k:ℤ) - 1) = qbfsG sqrt (k+1) := by
              simp only [qbfsGi]; congr 1; omega
            have eh : qbfsHi sqrt (2 + (k:ℤ) - 2) = qbfsH k (qbfsF sqrt k) := by
              have : (2 + (k:ℤ) - 2).toNat = k := by omega
              simp only [qbfsHi, this]
            have ef : qbfsFi sqrt (2 + (k:ℤ)) = qbfsF sqrt (k+2) := by
              simp only [qbfsFi]; congr 1; omega
            simp only [eg, eh, ef, hs1, hs2, hs3, hs4, qbfsPQ_step, pow_two]
            exact ⟨trivial, trivial, trivial, trivial, fun _ => trivial⟩
        · ring)

end qbfs

end C07L
