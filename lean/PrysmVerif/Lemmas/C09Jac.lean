import PrysmVerif.Lemmas.C09Der
import PrysmVerif.Lemmas.C10Sums
import Mathlib.Algebra.CharZero.Defs
import Mathlib.Tactic.NormNum
/-!
# C09 — `jacobi_der` for every order: `d/dx P_n^{(α,β)} = ½(n+α+β+1) P_{n-1}^{(α+1,β+1)}`

Route (everything at the level of values at a point `x₀`, so all algebra happens in the field):
1. the contiguous relation `P_n^{(α,β)} = u_n M_n + v_n M_{n-1} + w_n M_{n-2}`, `M = P^{(α+1,β+1)}`, by induction from the two
   three-term recurrences (five rational-function identities `I1 … I5` in `(N, α, β)`);
2. the differentiated recurrence `d_{n+1} = (a_n x + b_n) d_n - c_n d_{n-1} + a_n p_n` for `d_n = P_n'(x₀)`;
3. `d_n = ½(n+α+β+1) M_{n-1}` by induction (three identities `J1 … J3`).
-/
set_option linter.unusedSectionVars false
set_option linter.unusedSimpArgs false
set_option linter.unusedVariables false

namespace JacD
variable {F : Type} [Field F]

def gA (n1 q1 t1 t2 : F) : F := t1 * t2 / (2 * n1 * q1)
def gB (n1 q1 t0 t1 d : F) : F := d * t1 / (2 * n1 * q1 * t0)
def gC (n1 q1 t0 t2 na nb : F) : F := na * nb * t2 / (n1 * q1 * t0)
def gU (q1 q2 t1 t2 : F) : F := q1 * q2 / (t1 * t2)
def gV (q1 t0 t2 e : F) : F := q1 * e / (t0 * t2)
def gW (t0 t1 na nb : F) : F := -(na * nb) / (t1 * t0)

/-- all the quantities of one induction step, as functions of `N` (the order whose successor is produced), `α`, `β` -/
structure Coefs (F : Type) where
  (a b c a4 b4 c4 a3 b3 c3 a2 b2 c2 u v w u1 v1 w1 U V W : F)

def coefs (N al be : F) : Coefs F :=
  let s := al + be
  let t := 2 * N + s
  let d := al ^ 2 - be ^ 2
  let d' := (al + 1) ^ 2 - (be + 1) ^ 2
  { a := gA (N+1) (N+s+1) (t+1) (t+2), b := gB (N+1) (N+s+1) t (t+1) d, c := gC (N+1) (N+s+1) t (t+2) (N+al) (N+be),
    a4 := gA (N+1) (N+s+3) (t+3) (t+4), b4 := gB (N+1) (N+s+3) (t+2) (t+3) d', c4 := gC (N+1) (N+s+3) (t+2) (t+4) (N+al+1) (N+be+1),
    a3 := gA N (N+s+2) (t+1) (t+2), b3 := gB N (N+s+2) t (t+1) d', c3 := gC N (N+s+2) t (t+2) (N+al) (N+be),
    a2 := gA (N-1) (N+s+1) (t-1) t, b2 := gB (N-1) (N+s+1) (t-2) (t-1) d', c2 := gC (N-1) (N+s+1) (t-2) t (N+al-1) (N+be-1),
    u := gU (N+s+1) (N+s+2) (t+1) (t+2), v := gV (N+s+1) t (t+2) (al-be), w := gW t (t+1) (N+al) (N+be),
    u1 := gU (N+s) (N+s+1) (t-1) t, v1 := gV (N+s) (t-2) t (al-be), w1 := gW (t-2) (t-1) (N+al-1) (N+be-1),
    U := gU (N+s+2) (N+s+3) (t+3) (t+4), V := gV (N+s+2) (t+2) (t+4) (al-be), W := gW (t+2) (t+3) (N+al+1) (N+be+1) }

/-- non-vanishing of everything that is divided by in a step at order `N` -/
structure NZ (N al be : F) : Prop where
  two : (2 : F) ≠ 0
  n1 : N + 1 ≠ 0
  n0 : N ≠ 0
  nm1 : N - 1 ≠ 0
  q0 : N + (al + be) ≠ 0
  q1 : N + (al + be) + 1 ≠ 0
  q2 : N + (al + be) + 2 ≠ 0
  q3 : N + (al + be) + 3 ≠ 0
  tm2 : 2 * N + (al + be) - 2 ≠ 0
  tm1 : 2 * N + (al + be) - 1 ≠ 0
  t0 : 2 * N + (al + be) ≠ 0
  t1 : 2 * N + (al + be) + 1 ≠ 0
  t2 : 2 * N + (al + be) + 2 ≠ 0
  t3 : 2 * N + (al + be) + 3 ≠ 0
  t4 : 2 * N + (al + be) + 4 ≠ 0

theorem I1 (N al be : F) (h : NZ N al be) :
    (coefs N al be).a * (coefs N al be).u / (coefs N al be).a4 = (coefs N al be).U := by
  obtain ⟨h2, n1, n0, nm1, q0, q1, q2, q3, tm2, tm1, t0, t1, t2, t3, t4⟩ := h
  simp only [coefs, gA, gB, gC, gU, gV, gW]
  field_simp

theorem I2 (N al be : F) (h : NZ N al be) :
    -((coefs N al be).a * (coefs N al be).u * (coefs N al be).b4 / (coefs N al be).a4)
      + (coefs N al be).a * (coefs N al be).v / (coefs N al be).a3 + (coefs N al be).b * (coefs N al be).u
      = (coefs N al be).V := by
  obtain ⟨h2, n1, n0, nm1, q0, q1, q2, q3, tm2, tm1, t0, t1, t2, t3, t4⟩ := h
  simp only [coefs, gA, gB, gC, gU, gV, gW]
  field_simp
  ring

theorem I3 (N al be : F) (h : NZ N al be) :
    (coefs N al be).a * (coefs N al be).u * (coefs N al be).c4 / (coefs N al be).a4
      - (coefs N al be).a * (coefs N al be).v * (coefs N al be).b3 / (coefs N al be).a3
      + (coefs N al be).a * (coefs N al be).w / (coefs N al be).a2
      + (coefs N al be).b * (coefs N al be).v - (coefs N al be).c * (coefs N al be).u1
      = (coefs N al be).W := by
  obtain ⟨h2, n1, n0, nm1, q0, q1, q2, q3, tm2, tm1, t0, t1, t2, t3, t4⟩ := h
  simp only [coefs, gA, gB, gC, gU, gV, gW]
  field_simp
  ring

theorem I4 (N al be : F) (h : NZ N al be) :
    (coefs N al be).a * (coefs N al be).v * (coefs N al be).c3 / (coefs N al be).a3
      - (coefs N al be).a * (coefs N al be).w * (coefs N al be).b2 / (coefs N al be).a2
      + (coefs N al be).b * (coefs N al be).w - (coefs N al be).c * (coefs N al be).v1 = 0 := by
  obtain ⟨h2, n1, n0, nm1, q0, q1, q2, q3, tm2, tm1, t0, t1, t2, t3, t4⟩ := h
  simp only [coefs, gA, gB, gC, gU, gV, gW]
  field_simp
  ring

theorem I5 (N al be : F) (h : NZ N al be) :
    (coefs N al be).a * (coefs N al be).w * (coefs N al be).c2 / (coefs N al be).a2
      - (coefs N al be).c * (coefs N al be).w1 = 0 := by
  obtain ⟨h2, n1, n0, nm1, q0, q1, q2, q3, tm2, tm1, t0, t1, t2, t3, t4⟩ := h
  simp only [coefs, gA, gB, gC, gU, gV, gW]
  field_simp
  ring

/-- non-vanishing needed by the derivative step (holds from `N = 1` on) -/
structure NZd (N al be : F) : Prop where
  two : (2 : F) ≠ 0
  n1 : N + 1 ≠ 0
  n0 : N ≠ 0
  q1 : N + (al + be) + 1 ≠ 0
  q2 : N + (al + be) + 2 ≠ 0
  t0 : 2 * N + (al + be) ≠ 0
  t1 : 2 * N + (al + be) + 1 ≠ 0
  t2 : 2 * N + (al + be) + 2 ≠ 0

theorem J1 (N al be : F) (h : NZd N al be) :
    (coefs N al be).a * ((N + (al + be) + 1) / 2) / (coefs N al be).a3 + (coefs N al be).a * (coefs N al be).u
      = (N + (al + be) + 2) / 2 := by
  obtain ⟨h2, n1, n0, q1, q2, t0, t1, t2⟩ := h
  simp only [coefs, gA, gB, gC, gU, gV, gW]
  field_simp
  try ring

theorem J2 (N al be : F) (h : NZd N al be) :
    -((coefs N al be).a * ((N + (al + be) + 1) / 2) * (coefs N al be).b3 / (coefs N al be).a3)
      + (coefs N al be).b * ((N + (al + be) + 1) / 2) + (coefs N al be).a * (coefs N al be).v = 0 := by
  obtain ⟨h2, n1, n0, q1, q2, t0, t1, t2⟩ := h
  simp only [coefs, gA, gB, gC, gU, gV, gW]
  field_simp
  try ring

theorem J3 (N al be : F) (h : NZd N al be) :
    (coefs N al be).a * ((N + (al + be) + 1) / 2) * (coefs N al be).c3 / (coefs N al be).a3
      - (coefs N al be).c * ((N + (al + be)) / 2) + (coefs N al be).a * (coefs N al be).w = 0 := by
  obtain ⟨h2, n1, n0, q1, q2, t0, t1, t2⟩ := h
  simp only [coefs, gA, gB, gC, gU, gV, gW]
  field_simp
  try ring

theorem a432_ne (N al be : F) (h : NZ N al be) :
    (coefs N al be).a4 ≠ 0 ∧ (coefs N al be).a3 ≠ 0 ∧ (coefs N al be).a2 ≠ 0 := by
  obtain ⟨h2, n1, n0, nm1, q0, q1, q2, q3, tm2, tm1, t0, t1, t2, t3, t4⟩ := h
  simp only [coefs, gA]
  refine ⟨?_, ?_, ?_⟩
  · exact div_ne_zero (mul_ne_zero t3 t4) (mul_ne_zero (mul_ne_zero h2 n1) q3)
  · exact div_ne_zero (mul_ne_zero t1 t2) (mul_ne_zero (mul_ne_zero h2 n0) q2)
  · exact div_ne_zero (mul_ne_zero tm1 t0) (mul_ne_zero (mul_ne_zero h2 nm1) q1)

/-- one step of the contiguous relation: from `R_N`, `R_{N-1}` and the three `M`-recurrences to `R_{N+1}` -/
theorem contig_step (N al be x M0 M1 M2 M3 M4 pN pNm1 : F) (h : NZ N al be)
    (hm4 : M4 = ((coefs N al be).a4 * x + (coefs N al be).b4) * M3 - (coefs N al be).c4 * M2)
    (hm3 : M3 = ((coefs N al be).a3 * x + (coefs N al be).b3) * M2 - (coefs N al be).c3 * M1)
    (hm2 : M2 = ((coefs N al be).a2 * x + (coefs N al be).b2) * M1 - (coefs N al be).c2 * M0)
    (hR : pN = (coefs N al be).u * M3 + (coefs N al be).v * M2 + (coefs N al be).w * M1)
    (hR1 : pNm1 = (coefs N al be).u1 * M2 + (coefs N al be).v1 * M1 + (coefs N al be).w1 * M0) :
    ((coefs N al be).a * x + (coefs N al be).b) * pN - (coefs N al be).c * pNm1
      = (coefs N al be).U * M4 + (coefs N al be).V * M3 + (coefs N al be).W * M2 := by
  obtain ⟨ha4, ha3, ha2⟩ := a432_ne N al be h
  have i1 := I1 N al be h; have i2 := I2 N al be h; have i3 := I3 N al be h
  have i4 := I4 N al be h; have i5 := I5 N al be h
  generalize coefs N al be = K at *
  have hx3 : x * M3 = (M4 - K.b4 * M3 + K.c4 * M2) / K.a4 := by
    field_simp; linear_combination -hm4
  have hx2 : x * M2 = (M3 - K.b3 * M2 + K.c3 * M1) / K.a3 := by
    field_simp; linear_combination -hm3
  have hx1 : x * M1 = (M2 - K.b2 * M1 + K.c2 * M0) / K.a2 := by
    field_simp; linear_combination -hm2
  rw [hR, hR1]
  linear_combination (K.a * K.u) * hx3 + (K.a * K.v) * hx2 + (K.a * K.w) * hx1
    + M4 * i1 + M3 * i2 + M2 * i3 + M1 * i4 + M0 * i5

/-- one step of the derivative relation -/
theorem der_step (N al be x M1 M2 M3 pN dN dNm1 : F) (h : NZd N al be)
    (hm3 : M3 = ((coefs N al be).a3 * x + (coefs N al be).b3) * M2 - (coefs N al be).c3 * M1)
    (hR : pN = (coefs N al be).u * M3 + (coefs N al be).v * M2 + (coefs N al be).w * M1)
    (hd : dN = (N + (al + be) + 1) / 2 * M2) (hd1 : dNm1 = (N + (al + be)) / 2 * M1) :
    ((coefs N al be).a * x + (coefs N al be).b) * dN - (coefs N al be).c * dNm1 + (coefs N al be).a * pN
      = (N + (al + be) + 2) / 2 * M3 := by
  have ha3 : (coefs N al be).a3 ≠ 0 := by
    obtain ⟨h2, n1, n0, q1, q2, t0, t1, t2⟩ := h
    simp only [coefs, gA]
    exact div_ne_zero (mul_ne_zero t1 t2) (mul_ne_zero (mul_ne_zero h2 n0) q2)
  have j1 := J1 N al be h; have j2 := J2 N al be h; have j3 := J3 N al be h
  generalize coefs N al be = K at *
  have hx2 : x * M2 = (M3 - K.b3 * M2 + K.c3 * M1) / K.a3 := by
    field_simp; linear_combination -hm3
  rw [hR, hd, hd1]
  linear_combination (K.a * ((N + (al + be) + 1) / 2)) * hx2 + M3 * j1 + M2 * j2 + M1 * j3

/-- non-vanishing for the first step (`N = 1`) -/
structure NZ1 (N al be : F) : Prop where
  two : (2 : F) ≠ 0
  n1 : N + 1 ≠ 0
  n0 : N ≠ 0
  q1 : N + (al + be) + 1 ≠ 0
  q2 : N + (al + be) + 2 ≠ 0
  q3 : N + (al + be) + 3 ≠ 0
  t0 : 2 * N + (al + be) ≠ 0
  t1 : 2 * N + (al + be) + 1 ≠ 0
  t2 : 2 * N + (al + be) + 2 ≠ 0
  t3 : 2 * N + (al + be) + 3 ≠ 0
  t4 : 2 * N + (al + be) + 4 ≠ 0

theorem I1one (N al be : F) (h : NZ1 N al be) :
    (coefs N al be).a * (coefs N al be).u / (coefs N al be).a4 = (coefs N al be).U := by
  obtain ⟨h2, n1, n0, q1, q2, q3, t0, t1, t2, t3, t4⟩ := h
  simp only [coefs, gA, gB, gC, gU, gV, gW]
  field_simp

theorem I2one (N al be : F) (h : NZ1 N al be) :
    -((coefs N al be).a * (coefs N al be).u * (coefs N al be).b4 / (coefs N al be).a4)
      + (coefs N al be).a * (coefs N al be).v / (coefs N al be).a3 + (coefs N al be).b * (coefs N al be).u
      = (coefs N al be).V := by
  obtain ⟨h2, n1, n0, q1, q2, q3, t0, t1, t2, t3, t4⟩ := h
  simp only [coefs, gA, gB, gC, gU, gV, gW]
  field_simp
  ring

/-- at `N = 1` the term in `M_{-1}` is absent and `u_0 = 1` -/
theorem I3one (N al be : F) (hN : N = 1) (h : NZ1 N al be) :
    (coefs N al be).a * (coefs N al be).u * (coefs N al be).c4 / (coefs N al be).a4
      - (coefs N al be).a * (coefs N al be).v * (coefs N al be).b3 / (coefs N al be).a3
      + (coefs N al be).b * (coefs N al be).v - (coefs N al be).c
      = (coefs N al be).W := by
  obtain ⟨h2, n1, n0, q1, q2, q3, t0, t1, t2, t3, t4⟩ := h
  simp only [coefs, gA, gB, gC, gU, gV, gW]
  field_simp
  subst hN
  ring

/-- first step: `R_2` from `P_0 = M_0`, `R_1` -/
theorem contig_step1 (N al be x m0 m1 m2 p1 p0 : F) (hN : N = 1) (h : NZ1 N al be)
    (hm2 : m2 = ((coefs N al be).a4 * x + (coefs N al be).b4) * m1 - (coefs N al be).c4 * m0)
    (hm1 : m1 = ((coefs N al be).a3 * x + (coefs N al be).b3) * m0)
    (hR : p1 = (coefs N al be).u * m1 + (coefs N al be).v * m0) (hR0 : p0 = m0) :
    ((coefs N al be).a * x + (coefs N al be).b) * p1 - (coefs N al be).c * p0
      = (coefs N al be).U * m2 + (coefs N al be).V * m1 + (coefs N al be).W * m0 := by
  have i1 := I1one N al be h; have i2 := I2one N al be h; have i3 := I3one N al be hN h
  have ha4 : (coefs N al be).a4 ≠ 0 := by
    obtain ⟨h2, n1, n0, q1, q2, q3, t0, t1, t2, t3, t4⟩ := h
    simp only [coefs, gA]
    exact div_ne_zero (mul_ne_zero t3 t4) (mul_ne_zero (mul_ne_zero h2 n1) q3)
  have ha3 : (coefs N al be).a3 ≠ 0 := by
    obtain ⟨h2, n1, n0, q1, q2, q3, t0, t1, t2, t3, t4⟩ := h
    simp only [coefs, gA]
    exact div_ne_zero (mul_ne_zero t1 t2) (mul_ne_zero (mul_ne_zero h2 n0) q2)
  generalize coefs N al be = K at *
  have hx1 : x * m1 = (m2 - K.b4 * m1 + K.c4 * m0) / K.a4 := by
    field_simp; linear_combination -hm2
  have hx0 : x * m0 = (m1 - K.b3 * m0) / K.a3 := by
    field_simp; linear_combination -hm1
  rw [hR, hR0]
  linear_combination (K.a * K.u) * hx1 + (K.a * K.v) * hx0 + m2 * i1 + m1 * i2 + m0 * i3

/-! ### the sequences of the model -/
section Model
open Model.C10 Model.C09 C10L Polynomial
variable [DecidableEq F] [CharZero F]

theorem jacobi_succ_succ (n : ℕ) (al be x : F) :
    jacobi (n+2) al be x = ((jacABC (n+1) al be).1 * x + (jacABC (n+1) al be).2.1) * jacobi (n+1) al be x
      - (jacABC (n+1) al be).2.2 * jacobi n al be x := by
  simp only [jacobi, jacobiPair]

theorem natne (k : ℕ) : ((k : F) + 1) ≠ 0 := by
  have : ((k : F) + 1) = ((k + 1 : ℕ) : F) := by push_cast; ring
  rw [this]; exact Nat.cast_ne_zero.mpr (by omega)

/-- general branch of `recurrence_abc` (any order `≥ 1`) in the `g`-form of `coefs` -/
theorem jacABC_succ (n : ℕ) (al be : F) :
    jacABC (n+1) al be =
      ((coefs ((n : F) + 1) al be).a, (coefs ((n : F) + 1) al be).b, (coefs ((n : F) + 1) al be).c) := by
  have hc : ¬ (((n + 1 : ℕ) == 0 && (al + be == (Num.ofInt 0 : F) || al + be == (Num.ofInt (-1) : F))) = true) := by simp
  unfold jacABC
  simp only []
  rw [if_neg hc]
  simp only [coefs, gA, gB, gC, ofInt_eq, npow_eq]
  push_cast
  refine Prod.ext ?_ (Prod.ext ?_ ?_) <;> (simp only []; ring)

/-- hypothesis on the parameters: `α + β ∉ {-2, -3, …}` (true for all `α, β > -1`) -/
def ParamOK (al be : F) : Prop := ∀ j : ℕ, al + be + (j : F) + 2 ≠ 0

/-- `recurrence_abc` for the shifted parameters `(α+1, β+1)` is always on its general branch -/
theorem jacABC_primed (k : ℕ) (al be : F) (H : ParamOK al be) :
    jacABC k (al+1) (be+1) =
      (gA ((k:F)+1) ((k:F)+(al+be)+3) (2*(k:F)+(al+be)+3) (2*(k:F)+(al+be)+4),
       gB ((k:F)+1) ((k:F)+(al+be)+3) (2*(k:F)+(al+be)+2) (2*(k:F)+(al+be)+3) ((al+1)^2-(be+1)^2),
       gC ((k:F)+1) ((k:F)+(al+be)+3) (2*(k:F)+(al+be)+2) (2*(k:F)+(al+be)+4) ((k:F)+al+1) ((k:F)+be+1)) := by
  have h0 : al + 1 + (be + 1) ≠ 0 := by
    have := H 0; simp at this; intro h; apply this; linear_combination h
  have h1 : al + 1 + (be + 1) ≠ -1 := by
    have := H 1; simp at this; intro h; apply this; linear_combination h
  have hc : ¬ ((k == 0 && (al + 1 + (be + 1) == (Num.ofInt 0 : F) || al + 1 + (be + 1) == (Num.ofInt (-1) : F))) = true) := by
    simp [h0, h1]
  unfold jacABC
  simp only []
  rw [if_neg hc]
  simp only [gA, gB, gC, ofInt_eq, npow_eq]
  push_cast
  refine Prod.ext ?_ (Prod.ext ?_ ?_) <;> (simp only []; ring)

/-- `M_{k-1}` with `M_{-1} = 0` -/
def mm (al be x : F) : ℕ → F
  | 0 => 0
  | k+1 => jacobi k (al+1) (be+1) x

/-- the recurrence of the shifted family, uniformly from `M_{-1} = 0` -/
theorem mm_rec (k : ℕ) (al be x : F) :
    mm al be x (k+2) = ((jacABC k (al+1) (be+1)).1 * x + (jacABC k (al+1) (be+1)).2.1) * mm al be x (k+1)
      - (jacABC k (al+1) (be+1)).2.2 * mm al be x k := by
  cases k with
  | zero =>
    simp only [mm]
    have h2 : (2 : F) ≠ 0 := two_ne_zero
    have := jac_p1 (al+1) (be+1) x h2
    simp only [jacobi, jacobiPair]
    simp only [ofInt_eq] at this ⊢
    push_cast at this ⊢
    linear_combination -this
  | succ j => simp only [mm]; exact jacobi_succ_succ j (al+1) (be+1) x

/-- the non-vanishing facts for a step at `N = n + 2` -/
theorem nz_of (n : ℕ) (al be : F) (H : ParamOK al be) : NZ ((n : F) + 2) al be := by
  have c : ∀ k : ℕ, 0 < k → ((k : ℕ) : F) ≠ 0 := fun k hk => Nat.cast_ne_zero.mpr (by omega)
  have q : ∀ (e : F) (j : ℕ), e = al + be + (j : F) + 2 → e ≠ 0 := fun e j h => h ▸ H j
  refine ⟨two_ne_zero, ?_, ?_, ?_, ?_, ?_, ?_, ?_, ?_, ?_, ?_, ?_, ?_, ?_, ?_⟩
  · have := c (n+3) (by omega); push_cast at this; intro h; apply this; linear_combination h
  · have := c (n+2) (by omega); push_cast at this; exact this
  · have := c (n+1) (by omega); push_cast at this; intro h; apply this; linear_combination h
  · exact q _ n (by ring)
  · exact q _ (n+1) (by push_cast; ring)
  · exact q _ (n+2) (by push_cast; ring)
  · exact q _ (n+3) (by push_cast; ring)
  · exact q _ (2*n) (by push_cast; ring)
  · exact q _ (2*n+1) (by push_cast; ring)
  · exact q _ (2*n+2) (by push_cast; ring)
  · exact q _ (2*n+3) (by push_cast; ring)
  · exact q _ (2*n+4) (by push_cast; ring)
  · exact q _ (2*n+5) (by push_cast; ring)
  · exact q _ (2*n+6) (by push_cast; ring)

/-- … and for the derivative step at `N = n + 1` -/
theorem nzd_of (n : ℕ) (al be : F) (H : ParamOK al be) : NZd ((n : F) + 1) al be := by
  have c : ∀ k : ℕ, 0 < k → ((k : ℕ) : F) ≠ 0 := fun k hk => Nat.cast_ne_zero.mpr (by omega)
  have q : ∀ (e : F) (j : ℕ), e = al + be + (j : F) + 2 → e ≠ 0 := fun e j h => h ▸ H j
  refine ⟨two_ne_zero, ?_, ?_, ?_, ?_, ?_, ?_, ?_⟩
  · have := c (n+2) (by omega); push_cast at this; intro h; apply this; linear_combination h
  · have := c (n+1) (by omega); push_cast at this; exact this
  · exact q _ n (by ring)
  · exact q _ (n+1) (by push_cast; ring)
  · exact q _ (2*n) (by push_cast; ring)
  · exact q _ (2*n+1) (by push_cast; ring)
  · exact q _ (2*n+2) (by push_cast; ring)

/-- the contiguous relation at order `n` (with `M_{-1} = 0`): `P_n = u_n M_n + v_n M_{n-1} + w_n M_{n-2}` -/
def Rel (al be x : F) (n : ℕ) : Prop :=
  jacobi n al be x = (coefs (n : F) al be).u * mm al be x (n+1) + (coefs (n : F) al be).v * mm al be x n
    + (coefs (n : F) al be).w * mm al be x (n-1)

theorem coefs_shift (N al be : F) :
    (coefs N al be).U = (coefs (N+1) al be).u ∧ (coefs N al be).V = (coefs (N+1) al be).v ∧
    (coefs N al be).W = (coefs (N+1) al be).w ∧ (coefs (N+1) al be).u1 = (coefs N al be).u ∧
    (coefs (N+1) al be).v1 = (coefs N al be).v ∧ (coefs (N+1) al be).w1 = (coefs N al be).w := by
  simp only [coefs, gU, gV, gW]
  refine ⟨?_, ?_, ?_, ?_, ?_, ?_⟩ <;> ring

/-- primed coefficients inside `coefs N` are `recurrence_abc(·, α+1, β+1)` at orders `N`, `N-1`, `N-2` -/
theorem coefs_primed (k : ℕ) (al be : F) (H : ParamOK al be) :
    jacABC (k+2) (al+1) (be+1) = ((coefs ((k:F)+2) al be).a4, (coefs ((k:F)+2) al be).b4, (coefs ((k:F)+2) al be).c4) ∧
    jacABC (k+1) (al+1) (be+1) = ((coefs ((k:F)+2) al be).a3, (coefs ((k:F)+2) al be).b3, (coefs ((k:F)+2) al be).c3) ∧
    jacABC k (al+1) (be+1) = ((coefs ((k:F)+2) al be).a2, (coefs ((k:F)+2) al be).b2, (coefs ((k:F)+2) al be).c2) ∧
    jacABC k (al+1) (be+1) = ((coefs ((k:F)+1) al be).a3, (coefs ((k:F)+1) al be).b3, (coefs ((k:F)+1) al be).c3) := by
  rw [jacABC_primed (k+2) al be H, jacABC_primed (k+1) al be H, jacABC_primed k al be H]
  simp only [coefs, gA, gB, gC]
  push_cast
  refine ⟨?_, ?_, ?_, ?_⟩ <;> (refine Prod.ext ?_ (Prod.ext ?_ ?_) <;> first | rfl | (simp only []; ring) | ring)

theorem rel_one (al be x : F) (H : ParamOK al be) : Rel al be x 1 := by
  have h2 : (2 : F) ≠ 0 := two_ne_zero
  have e2 : al + be + 2 ≠ 0 := by have := H 0; simpa using this
  have e3 : al + be + 3 ≠ 0 := by have := H 1; intro h; apply this; push_cast; linear_combination h
  have e4 : al + be + 4 ≠ 0 := by have := H 2; intro h; apply this; push_cast; linear_combination h
  have f2 : 2 * 1 + (al + be) ≠ 0 := by intro h; apply e2; linear_combination h
  have f3 : 2 * 1 + (al + be) + 1 ≠ 0 := by intro h; apply e3; linear_combination h
  have f4 : 2 * 1 + (al + be) + 2 ≠ 0 := by intro h; apply e4; linear_combination h
  have g2 : 2 + (al + be) ≠ 0 := by intro h; apply e2; linear_combination h
  have g3 : 2 + (al + be) + 1 ≠ 0 := by intro h; apply e3; linear_combination h
  have g4 : 2 + (al + be) + 2 ≠ 0 := by intro h; apply e4; linear_combination h
  simp only [Rel, mm, jacobi, jacobiPair, coefs, gU, gV, gW, ofInt_eq, Nat.cast_one]
  push_cast
  simp only [mul_one]
  field_simp
  ring

theorem rel_step (n : ℕ) (al be x : F) (H : ParamOK al be) (h1 : Rel al be x (n+1)) (h2 : Rel al be x (n+2)) :
    Rel al be x (n+3) := by
  obtain ⟨p4, p3, p2, _⟩ := coefs_primed n al be H
  have hz := nz_of n al be H
  have hp := jacobi_succ_succ (n+1) al be x
  rw [show n + 1 + 1 = n + 2 from rfl, jacABC_succ (n+1)] at hp
  simp only [] at hp
  have m4 := mm_rec (n+2) al be x
  have m3 := mm_rec (n+1) al be x
  have m2 := mm_rec n al be x
  rw [p4] at m4; rw [p3] at m3; rw [p2] at m2
  simp only [] at m4 m3 m2
  obtain ⟨sU, sV, sW, su1, sv1, sw1⟩ := coefs_shift ((n : F) + 2) al be
  obtain ⟨_, _, _, tu1, tv1, tw1⟩ := coefs_shift ((n : F) + 1) al be
  have e12 : ((n : F) + 1 + 1) = (n : F) + 2 := by ring
  rw [e12] at tu1 tv1 tw1
  simp only [Rel] at h1 h2 ⊢
  have c1 : ((n + 1 : ℕ) : F) = (n : F) + 1 := by push_cast; ring
  have c2 : ((n + 2 : ℕ) : F) = (n : F) + 2 := by push_cast; ring
  have c3 : ((n + 3 : ℕ) : F) = (n : F) + 2 + 1 := by push_cast; ring
  rw [c1] at h1; rw [c2] at h2; rw [c3]
  have hc1 : ((n + 1 : ℕ) : F) + 1 = (n : F) + 2 := by push_cast; ring
  rw [hc1] at hp
  rw [← tu1, ← tv1, ← tw1] at h1
  have key := contig_step ((n : F) + 2) al be x (mm al be x n) (mm al be x (n+1)) (mm al be x (n+2))
    (mm al be x (n+3)) (mm al be x (n+4)) (jacobi (n+2) al be x) (jacobi (n+1) al be x) hz m4 m3 m2 h2 h1
  rw [← sU, ← sV, ← sW]
  rw [show n + 1 + 2 = n + 3 from rfl] at hp
  rw [hp, key]
  rfl

theorem nz1_of (al be : F) (H : ParamOK al be) : NZ1 (1 : F) al be := by
  have q : ∀ (e : F) (j : ℕ), e = al + be + (j : F) + 2 → e ≠ 0 := fun e j h => h ▸ H j
  refine ⟨two_ne_zero, ?_, one_ne_zero, ?_, ?_, ?_, ?_, ?_, ?_, ?_, ?_⟩
  · have : (1 : F) + 1 = 2 := by norm_num
    rw [this]; exact two_ne_zero
  · exact q _ 0 (by push_cast; ring)
  · exact q _ 1 (by push_cast; ring)
  · exact q _ 2 (by push_cast; ring)
  · exact q _ 0 (by push_cast; ring)
  · exact q _ 1 (by push_cast; ring)
  · exact q _ 2 (by push_cast; ring)
  · exact q _ 3 (by push_cast; ring)
  · exact q _ 4 (by push_cast; ring)

theorem rel_two (al be x : F) (H : ParamOK al be) : Rel al be x 2 := by
  have h1 := rel_one al be x H
  have hz := nz1_of al be H
  have hp := jacobi_succ_succ 0 al be x
  rw [jacABC_succ 0] at hp
  simp only [] at hp
  have m2 := mm_rec 1 al be x
  have m1 := mm_rec 0 al be x
  have p4 := jacABC_primed 1 al be H
  have p3 := jacABC_primed 0 al be H
  have e4 : jacABC 1 (al+1) (be+1) = ((coefs (1:F) al be).a4, (coefs (1:F) al be).b4, (coefs (1:F) al be).c4) := by
    rw [p4]; simp only [coefs, gA, gB, gC]; push_cast
    refine Prod.ext ?_ (Prod.ext ?_ ?_) <;> first | rfl | (simp only []; ring) | ring
  have e3 : jacABC 0 (al+1) (be+1) = ((coefs (1:F) al be).a3, (coefs (1:F) al be).b3, (coefs (1:F) al be).c3) := by
    rw [p3]; simp only [coefs, gA, gB, gC]; push_cast
    refine Prod.ext ?_ (Prod.ext ?_ ?_) <;> first | rfl | (simp only []; ring) | ring
  rw [e4] at m2; rw [e3] at m1
  simp only [] at m2 m1
  have hm0 : mm al be x 0 = 0 := rfl
  have hm1' : mm al be x 1 = 1 := by simp [mm, jacobi, jacobiPair]
  rw [hm0] at m1
  have m1' : mm al be x 2 = ((coefs (1:F) al be).a3 * x + (coefs (1:F) al be).b3) * mm al be x 1 := by
    rw [m1]; ring
  simp only [Rel] at h1 ⊢
  have c1 : ((1 : ℕ) : F) = 1 := by norm_num
  have c2 : ((2 : ℕ) : F) = (1 : F) + 1 := by norm_num
  rw [c1] at h1; rw [c2]
  have hR : jacobi 1 al be x = (coefs (1:F) al be).u * mm al be x 2 + (coefs (1:F) al be).v * mm al be x 1 := by
    rw [h1, hm0]; ring
  have hp0 : jacobi 0 al be x = mm al be x 1 := by rw [hm1']; simp [jacobi, jacobiPair]
  have c01 : ((0 : ℕ) : F) + 1 = 1 := by norm_num
  rw [c01] at hp
  have key := contig_step1 (1 : F) al be x (mm al be x 1) (mm al be x 2) (mm al be x 3)
    (jacobi 1 al be x) (jacobi 0 al be x) rfl hz m2 m1' hR hp0
  obtain ⟨sU, sV, sW, _, _, _⟩ := coefs_shift (1 : F) al be
  rw [← sU, ← sV, ← sW, hp, key]

/-- **contiguous relation, all orders `≥ 1`** -/
theorem rel_all (al be x : F) (H : ParamOK al be) : ∀ n : ℕ, Rel al be x (n+1) := by
  intro n
  induction n using Nat.twoStepInduction with
  | zero => exact rel_one al be x H
  | one => exact rel_two al be x H
  | more k ih0 ih1 => exact rel_step k al be x H ih0 ih1

/-! ### the derivative -/

/-- `P_n^{(α,β)}` as a polynomial: the family with `recurrence_abc` coefficients run on the indeterminate -/
noncomputable def jacPoly (al be : F) (n : ℕ) : F[X] := (liftP (jacFam al be)).p X n

/-- `d_n = P_n'(x₀)` -/
noncomputable def dval (al be x : F) (n : ℕ) : F := eval x (derivative (jacPoly al be n))

theorem eval_jacPoly (al be x : F) (n : ℕ) : eval x (jacPoly al be n) = jacobi n al be x := by
  rw [jacPoly, eval_liftP_p, jacFam_p al be x two_ne_zero]

theorem jacABC_zero_fst (al be : F) : (jacABC 0 al be).1 = (al + be + 2) / 2 := by
  have h2 : (2 : F) ≠ 0 := two_ne_zero
  have e1 := jac_p1 al be 1 h2
  have e0 := jac_p1 al be 0 h2
  field_simp at e1 e0 ⊢
  linear_combination e1 - e0

theorem dval_zero (al be x : F) : dval al be x 0 = 0 := by
  simp [dval, jacPoly, p_zero, jacFam]

theorem dval_one (al be x : F) : dval al be x 1 = (al + be + 2) / 2 := by
  simp only [dval, jacPoly, p_one, liftP_a, liftP_b, liftP_e, liftP_p0]
  simp [jacFam, jacABC_zero_fst]

theorem dval_rec (al be x : F) (n : ℕ) :
    dval al be x (n+2) = ((jacABC (n+1) al be).1 * x + (jacABC (n+1) al be).2.1) * dval al be x (n+1)
      - (jacABC (n+1) al be).2.2 * dval al be x n + (jacABC (n+1) al be).1 * jacobi (n+1) al be x := by
  have hv := eval_jacPoly al be x (n+1)
  simp only [dval, jacPoly] at hv ⊢
  rw [p_succ_succ]
  simp only [liftP_a, liftP_b, liftP_c, liftP_e]
  have he : (jacFam al be).e (n+1) = 0 := by simp [jacFam]
  rw [he]
  simp only [map_zero, add_zero, derivative_sub, derivative_mul, derivative_add, derivative_C, derivative_X,
    eval_sub, eval_mul, eval_add, eval_C, eval_X, hv, zero_mul, mul_one, zero_add, mul_zero]
  simp only [jacFam]
  ring

/-- **`jacobi_der`, every order**: `P_n'(x₀) = ½(n+α+β+1) P_{n-1}^{(α+1,β+1)}(x₀)` (`0` at `n = 0`) -/
theorem dval_eq (al be x : F) (H : ParamOK al be) : ∀ n : ℕ,
    dval al be x n = ((n : F) + (al + be) + 1) / 2 * mm al be x n := by
  intro n
  induction n using Nat.twoStepInduction with
  | zero => simp [dval_zero, mm]
  | one =>
    rw [dval_one]
    have : mm al be x 1 = 1 := by simp [mm, jacobi, jacobiPair]
    rw [this]; push_cast; ring
  | more k ih0 ih1 =>
    have hz := nzd_of k al be H
    have hr := dval_rec al be x k
    rw [jacABC_succ k] at hr
    simp only [] at hr
    obtain ⟨_, _, _, p3⟩ := coefs_primed k al be H
    have m3 := mm_rec k al be x
    rw [p3] at m3
    simp only [] at m3
    have hR := rel_all al be x H k
    simp only [Rel] at hR
    have c1 : ((k + 1 : ℕ) : F) = (k : F) + 1 := by push_cast; ring
    rw [c1] at hR ih1
    rw [show k + 1 + 1 = k + 2 from rfl, show k + 1 - 1 = k from rfl] at hR
    have hd1 : dval al be x k = ((k : F) + 1 + (al + be)) / 2 * mm al be x k := by rw [ih0]; ring
    have key := der_step ((k : F) + 1) al be x (mm al be x k) (mm al be x (k+1)) (mm al be x (k+2))
      (jacobi (k+1) al be x) (dval al be x (k+1)) (dval al be x k) hz m3 hR ih1 hd1
    rw [hr, key]
    push_cast; ring
end Model
end JacD
