import PrysmVerif.Lemmas.C17Passive
import Mathlib.Analysis.SpecialFunctions.Trigonometric.Deriv
import Mathlib.Analysis.Calculus.Deriv.MeanValue
import Mathlib.Analysis.Complex.RealDeriv

/-!
# C17 — an absorbing layer is passive (analytic part of `R + T ≤ 1`)

Inside a layer the tangential fields obey `E' = -i a H`, `H' = -i b E` (derivative with respect to the scaled depth
`κ = 2π d / λ`), whose solution is the characteristic matrix `[[cos κg, -i sin κg · a/g], [-i sin κg · b/g, cos κg]]`,
`g² = a b`.  Hence `d/dκ Re(E H̄) = Im a · |H|² + Im b · |E|² ≥ 0` when `Im a, Im b ≥ 0`: the power flow is monotone in
the thickness, so the layer is passive for every thickness `≥ 0`.  s-polarisation: `a = 1`, `b = (n cos θ)²`;
p-polarisation: `a = cos² θ`, `b = n²`; with Snell's law both have non-negative imaginary part as soon as `Im n² ≥ 0`.
Here `sin`, `cos` are the complex functions themselves (this claim is transcendental: it needs `sinh u ≥ u`-type facts).
-/
namespace C17Film
open Model.C17 C17Num Complex

/-- tangential fields inside a general layer as entire functions of the (scaled) depth `z`; `j = ∓i` -/
noncomputable def Ez (j g a x y : ℂ) (z : ℂ) : ℂ := cos (z * g) * x + j * sin (z * g) * (a / g) * y
noncomputable def Hz (j g b x y : ℂ) (z : ℂ) : ℂ := j * sin (z * g) * (b / g) * x + cos (z * g) * y

theorem hasDerivAt_Ez (j g a b x y z : ℂ) (hj : j ^ 2 = -1) (hg : g ≠ 0) (hab : g ^ 2 = a * b) :
    HasDerivAt (Ez j g a x y) (j * a * Hz j g b x y z) z := by
  have h1 : HasDerivAt (fun z : ℂ => z * g) g z := by simpa using (hasDerivAt_id z).mul_const g
  have hc := (h1.ccos).mul_const x
  have hs := ((h1.csin).const_mul j).mul_const ((a / g) * y)
  have h : HasDerivAt (fun w : ℂ => cos (w * g) * x + j * sin (w * g) * (a / g * y))
      (-sin (z * g) * g * x + j * (cos (z * g) * g) * (a / g * y)) z := hc.add hs
  have e : Ez j g a x y = fun w : ℂ => cos (w * g) * x + j * sin (w * g) * (a / g * y) := by
    funext w; simp only [Ez]; ring
  rw [e]; refine h.congr_deriv ?_
  simp only [Hz]
  field_simp
  linear_combination (-(sin (z * g) * x * a * b : ℂ)) * hj - (sin (z * g) * x : ℂ) * hab

theorem hasDerivAt_Hz (j g a b x y z : ℂ) (hj : j ^ 2 = -1) (hg : g ≠ 0) (hab : g ^ 2 = a * b) :
    HasDerivAt (Hz j g b x y) (j * b * Ez j g a x y z) z := by
  have h1 : HasDerivAt (fun z : ℂ => z * g) g z := by simpa using (hasDerivAt_id z).mul_const g
  have hs := ((h1.csin).const_mul j).mul_const ((b / g) * x)
  have hc := (h1.ccos).mul_const y
  have h : HasDerivAt (fun w : ℂ => j * sin (w * g) * (b / g * x) + cos (w * g) * y)
      (j * (cos (z * g) * g) * (b / g * x) + -sin (z * g) * g * y) z := hs.add hc
  have e : Hz j g b x y = fun w : ℂ => j * sin (w * g) * (b / g * x) + cos (w * g) * y := by
    funext w; simp only [Hz]; ring
  rw [e]; refine h.congr_deriv ?_
  simp only [Ez]
  field_simp
  linear_combination (-(sin (z * g) * y * a * b : ℂ)) * hj - (sin (z * g) * y : ℂ) * hab


local notation "conj" => starRingEnd ℂ

theorem Hz_conj (g b x y : ℂ) (t : ℝ) :
    Hz I (conj g) (conj b) (conj x) (conj y) t = conj (Hz (-I) g b x y t) := by
  simp only [Hz, map_add, map_mul, map_neg, map_div₀, conj_I, ← Complex.cos_conj, ← Complex.sin_conj, conj_ofReal]
  ring

theorem Ez_conj (g a x y : ℂ) (t : ℝ) :
    Ez I (conj g) (conj a) (conj x) (conj y) t = conj (Ez (-I) g a x y t) := by
  simp only [Ez, map_add, map_mul, map_neg, map_div₀, conj_I, ← Complex.cos_conj, ← Complex.sin_conj, conj_ofReal]
  ring

/-- the power flow through a layer with `Im a ≥ 0`, `Im b ≥ 0` does not decrease towards the front -/
theorem layer_flux_mono (g a b x y : ℂ) (hg : g ≠ 0) (hab : g ^ 2 = a * b) (ha : 0 ≤ a.im) (hb : 0 ≤ b.im)
    (κ : ℝ) (hκ : 0 ≤ κ) : flux x y ≤ flux (Ez (-I) g a x y κ) (Hz (-I) g b x y κ) := by
  have hI : (-I : ℂ) ^ 2 = -1 := by simp
  have hI' : (I : ℂ) ^ 2 = -1 := by simp
  have hg' : conj g ≠ 0 := by simpa using hg
  have hab' : (conj g) ^ 2 = conj a * conj b := by rw [← map_pow, hab, map_mul]
  set F : ℂ → ℂ := fun z => Ez (-I) g a x y z * Hz I (conj g) (conj b) (conj x) (conj y) z with hF
  set f : ℝ → ℝ := fun t => (F t).re with hf
  have hflux : ∀ t : ℝ, f t = flux (Ez (-I) g a x y t) (Hz (-I) g b x y t) := by
    intro t; simp only [hf, hF, Hz_conj, flux]
  have hder : ∀ t : ℝ, HasDerivAt f
      (a.im * normSq (Hz (-I) g b x y t) + b.im * normSq (Ez (-I) g a x y t)) t := by
    intro t
    have h1 := hasDerivAt_Ez (-I) g a b x y t hI hg hab
    have h2 := hasDerivAt_Hz I (conj g) (conj a) (conj b) (conj x) (conj y) t hI' hg' hab'
    have h := (h1.mul h2).real_of_complex
    refine h.congr_deriv ?_
    rw [Hz_conj, Ez_conj]
    set E := Ez (-I) g a x y t
    set H := Hz (-I) g b x y t
    simp only [Complex.add_re, Complex.mul_re, Complex.mul_im, Complex.neg_re, Complex.neg_im, Complex.I_re, Complex.I_im,
      Complex.conj_re, Complex.conj_im, normSq_apply]
    ring
  have hmono : Monotone f := by
    apply monotone_of_deriv_nonneg (fun t => (hder t).differentiableAt)
    intro t
    rw [(hder t).deriv]
    have := normSq_nonneg (Hz (-I) g b x y t)
    have := normSq_nonneg (Ez (-I) g a x y t)
    positivity
  have h0 : f 0 = flux x y := by
    rw [hflux]; simp [Ez, Hz]
  calc flux x y = f 0 := h0.symm
    _ ≤ f κ := hmono hκ
    _ = _ := hflux κ


/-- the s-polarised characteristic matrix of a layer with `Im (n cos θ)² ≥ 0` and thickness `≥ 0` is passive -/
theorem layerS_passive (n ct : ℂ) (κ : ℝ) (hκ : 0 ≤ κ) (hn : n ≠ 0) (hct : ct ≠ 0) (him : 0 ≤ ((n * ct) ^ 2).im) :
    Passive (layerS (-I) (sin (κ * (n * ct))) (cos (κ * (n * ct))) ct n) := by
  intro E H
  have hg : n * ct ≠ 0 := mul_ne_zero hn hct
  have h := layer_flux_mono (n * ct) 1 ((n * ct) ^ 2) E H hg (by ring) (by simp) him κ hκ
  have e1 : Ez (-I) (n * ct) 1 E H κ =
      (layerS (-I) (sin (κ * (n * ct))) (cos (κ * (n * ct))) ct n).a * E +
      (layerS (-I) (sin (κ * (n * ct))) (cos (κ * (n * ct))) ct n).b * H := by
    simp only [Ez, layerS]; field_simp
  have e2 : Hz (-I) (n * ct) ((n * ct) ^ 2) E H κ =
      (layerS (-I) (sin (κ * (n * ct))) (cos (κ * (n * ct))) ct n).c * E +
      (layerS (-I) (sin (κ * (n * ct))) (cos (κ * (n * ct))) ct n).d * H := by
    simp only [Hz, layerS]; field_simp
  rw [e1, e2] at h; exact h

/-- the p-polarised characteristic matrix of a layer with `Im cos² θ ≥ 0`, `Im n² ≥ 0` and thickness `≥ 0` is passive -/
theorem layerP_passive (n ct : ℂ) (κ : ℝ) (hκ : 0 ≤ κ) (hn : n ≠ 0) (hct : ct ≠ 0) (hc : 0 ≤ (ct ^ 2).im)
    (hn2 : 0 ≤ (n ^ 2).im) :
    Passive (layerP (-I) (sin (κ * (n * ct))) (cos (κ * (n * ct))) ct n) := by
  intro E H
  have hg : n * ct ≠ 0 := mul_ne_zero hn hct
  have h := layer_flux_mono (n * ct) (ct ^ 2) (n ^ 2) E H hg (by ring) hc hn2 κ hκ
  have e1 : Ez (-I) (n * ct) (ct ^ 2) E H κ =
      (layerP (-I) (sin (κ * (n * ct))) (cos (κ * (n * ct))) ct n).a * E +
      (layerP (-I) (sin (κ * (n * ct))) (cos (κ * (n * ct))) ct n).b * H := by
    simp only [Ez, layerP]; field_simp
  have e2 : Hz (-I) (n * ct) (n ^ 2) E H κ =
      (layerP (-I) (sin (κ * (n * ct))) (cos (κ * (n * ct))) ct n).c * E +
      (layerP (-I) (sin (κ * (n * ct))) (cos (κ * (n * ct))) ct n).d * H := by
    simp only [Hz, layerP]; field_simp
  rw [e1, e2] at h; exact h

/-- Snell's law with a real invariant `σ = n₀ sin θ₀`: an absorbing medium (`Im n² ≥ 0`) has `Im (n cos θ)² ≥ 0` and
`Im cos² θ ≥ 0` -/
theorem snell_absorbing (n ct : ℂ) (σ : ℝ) (hn : n ≠ 0) (hn2 : 0 ≤ (n ^ 2).im) (hs : ct ^ 2 = 1 - ((σ : ℂ) / n) ^ 2) :
    0 ≤ ((n * ct) ^ 2).im ∧ 0 ≤ (ct ^ 2).im := by
  have e1 : (n * ct) ^ 2 = n ^ 2 - ((σ ^ 2 : ℝ) : ℂ) := by
    rw [mul_pow, hs]; push_cast; field_simp
  have e2 : ct ^ 2 = 1 - ((σ ^ 2 : ℝ) : ℂ) * (n ^ 2)⁻¹ := by
    rw [hs]; push_cast; field_simp
  constructor
  · rw [e1, Complex.sub_im, Complex.ofReal_im, sub_zero]; exact hn2
  · rw [e2]
    have hpos : 0 ≤ normSq (n ^ 2) := normSq_nonneg _
    simp only [Complex.sub_im, Complex.one_im, Complex.mul_im, Complex.ofReal_re, Complex.ofReal_im, Complex.inv_im,
      zero_mul, add_zero, zero_sub]
    have h1 : 0 ≤ σ ^ 2 * ((n ^ 2).im / normSq (n ^ 2)) := mul_nonneg (sq_nonneg σ) (div_nonneg hn2 hpos)
    have h2 : -(σ ^ 2 * (-(n ^ 2).im / normSq (n ^ 2))) = σ ^ 2 * ((n ^ 2).im / normSq (n ^ 2)) := by ring
    rw [h2]; exact h1

end C17Film
