import PrysmVerif.Model.C16
import Mathlib.Algebra.Order.Floor.Ring
import Mathlib.Algebra.Order.Field.Basic
import Mathlib.Tactic.Linarith
import Mathlib.Tactic.Positivity
import Mathlib.Tactic.Ring
/-!
# C16 — the noise-free exposure of one pixel over any linearly ordered field with a floor function
-/
set_option linter.unusedSectionVars false
set_option linter.unusedSimpArgs false

namespace C16L
open Model.C16

/-- scalar signature of the executable models, on a field -/
scoped instance (priority := 100) fieldNum {K : Type} [Field K] : Num K := { ofInt := fun i => (i : K) }

variable {K : Type} [Field K] [LinearOrder K] [IsStrictOrderedRing K] [FloorRing K]

theorem ofInt_eq (i : Int) : (Num.ofInt i : K) = (i : K) := rfl

theorem clipAbove_eq_min (x a : K) : clipAbove x a = min x a := by
  unfold clipAbove
  split_ifs with h
  · exact (min_eq_right h.le).symm
  · exact (min_eq_left (not_lt.mp h)).symm

theorem clipBelow0_eq_max (x : K) : clipBelow0 x = max x 0 := by
  unfold clipBelow0
  rw [ofInt_eq, Int.cast_zero]
  split_ifs with h
  · exact (max_eq_right h.le).symm
  · exact (max_eq_left (not_lt.mp h)).symm

/-- the value handed to the cast, in closed form, for an arbitrary ADC ceiling -/
theorem exposePreCap_eq (cap : Int) (img t dc dcnu prnu bias fwc gain : K) :
    exposePreCap cap img t dc dcnu prnu bias fwc gain
      = min (max (min ((img * t + dc * t * dcnu) * prnu + bias) fwc / gain) 0) ((cap : Int) : K) := by
  simp only [exposePreCap, clipAbove_eq_min, clipBelow0_eq_max, ofInt_eq, Int.cast_zero, Int.cast_one, add_zero, one_div,
    div_eq_mul_inv, one_mul]

/-- the value handed to the cast, in closed form -/
theorem exposePre_eq (img t dc dcnu prnu bias fwc gain : K) (bits : Int) :
    exposePre img t dc dcnu prnu bias fwc gain bits
      = min (max (min ((img * t + dc * t * dcnu) * prnu + bias) fwc / gain) 0) ((adcCap bits : Int) : K) :=
  exposePreCap_eq _ _ _ _ _ _ _ _ _

theorem adcCap_nonneg (bits : Int) : 0 ≤ adcCap bits := by
  unfold adcCap
  have : (1 : Int) ≤ 2 ^ bits.toNat := one_le_pow₀ (by norm_num)
  linarith

theorem exposePre_range (img t dc dcnu prnu bias fwc gain : K) (bits : Int) :
    0 ≤ exposePre img t dc dcnu prnu bias fwc gain bits ∧
    exposePre img t dc dcnu prnu bias fwc gain bits ≤ ((adcCap bits : Int) : K) := by
  rw [exposePre_eq]
  have hc : (0 : K) ≤ ((adcCap bits : Int) : K) := by exact_mod_cast adcCap_nonneg bits
  exact ⟨le_min (le_max_right _ _) hc, min_le_right _ _⟩

/-- monotone in the incident signal -/
theorem exposePre_mono (t dc dcnu prnu bias fwc gain : K) (bits : Int) (ht : 0 ≤ t) (hp : 0 ≤ prnu) (hg : 0 < gain)
    {img₁ img₂ : K} (h : img₁ ≤ img₂) :
    exposePre img₁ t dc dcnu prnu bias fwc gain bits ≤ exposePre img₂ t dc dcnu prnu bias fwc gain bits := by
  rw [exposePre_eq, exposePre_eq]
  apply min_le_min_right
  apply max_le_max_right
  apply div_le_div_of_nonneg_right _ hg.le
  apply min_le_min_right
  have h1 : img₁ * t ≤ img₂ * t := mul_le_mul_of_nonneg_right h ht
  have h2 : (img₁ * t + dc * t * dcnu) * prnu ≤ (img₂ * t + dc * t * dcnu) * prnu :=
    mul_le_mul_of_nonneg_right (by linarith) hp
  linarith

theorem bits_le_castBits (bits : Int) (h1 : 1 ≤ bits) (h32 : bits ≤ 32) :
    bits.toNat ≤ (castBits bits).toNat := by
  unfold castBits
  split_ifs <;> omega

/-- no wrap-around: an integer in `[0, 2^bits − 1]` survives the unsigned cast -/
theorem castU_id (bits : Int) (h1 : 1 ≤ bits) (h32 : bits ≤ 32) (z : Int) (h0 : 0 ≤ z) (hz : z ≤ adcCap bits) :
    castU (castBits bits) z = z := by
  unfold castU
  apply Int.emod_eq_of_lt h0
  have hp : (2 : Int) ^ bits.toNat ≤ 2 ^ (castBits bits).toNat :=
    pow_le_pow_right₀ (by norm_num) (bits_le_castBits bits h1 h32)
  unfold adcCap at hz
  linarith

theorem floor_exposePre_range (img t dc dcnu prnu bias fwc gain : K) (bits : Int) :
    0 ≤ ⌊exposePre img t dc dcnu prnu bias fwc gain bits⌋ ∧
    ⌊exposePre img t dc dcnu prnu bias fwc gain bits⌋ ≤ adcCap bits := by
  obtain ⟨h0, h1⟩ := exposePre_range img t dc dcnu prnu bias fwc gain bits
  refine ⟨Int.floor_nonneg.mpr h0, ?_⟩
  have := Int.floor_mono h1
  rwa [Int.floor_intCast] at this

end C16L
