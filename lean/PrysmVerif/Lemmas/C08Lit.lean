import PrysmVerif.Lemmas.C08Sweep
/-! # C08 — invariant of the statement-level translation of the `*_seq` bodies (`out` as a list of optional rows) -/
namespace C08L
open Model.C08
set_option linter.unusedSimpArgs false

variable {K : Type}

/-- a strictly ascending list splits at any bound into its members below and its members at/above it -/
theorem sorted_split (ns : List Nat) (hpw : ns.Pairwise (· < ·)) (i : Nat) :
    ns = ns.filter (· < i) ++ ns.filter (fun a => i ≤ a) := by
  induction ns with
  | nil => rfl
  | cons a l ih =>
    have hl := (List.pairwise_cons.mp hpw).2
    have ha := (List.pairwise_cons.mp hpw).1
    by_cases h : a < i
    · have h' : ¬ (i ≤ a) := by omega
      simp only [List.filter_cons, h, h', decide_true, decide_false, if_true, if_false, Bool.false_eq_true]
      rw [List.cons_append, ← ih hl]
    · have h' : i ≤ a := by omega
      have e1 : l.filter (· < i) = [] := by
        rw [List.filter_eq_nil_iff]; intro b hb; have := ha b hb; simp; omega
      have e2 : l.filter (fun b => i ≤ b) = l := by
        rw [List.filter_eq_self]; intro b hb; have := ha b hb; simp; omega
      simp only [List.filter_cons, h, h', decide_true, decide_false, if_true, if_false, Bool.false_eq_true, e1, e2,
        List.nil_append]

/-- rows `w` written, the remaining `n − |w|` rows unwritten -/
def rowsOf (w : List K) (n : Nat) : Rows K := w.map some ++ List.replicate (n - w.length) none

/-- the values written after all orders `< i` have been visited -/
def written (ns : List Nat) (ev : Nat → K) (i : Nat) : List K := (ns.filter (· < i)).map ev

/-- invariant of the literal `*_seq` code: rows `0..k-1` hold the requested orders below `i`, in order; the rest is unwritten -/
def RInv (ns : List Nat) (ev : Nat → K) (i : Nat) (out : Rows K) (k : Nat) : Prop :=
  k = (written ns ev i).length ∧ out = rowsOf (written ns ev i) ns.length

theorem RInv_zero (ns : List Nat) (ev : Nat → K) : RInv ns ev 0 (emptyRows ns.length) 0 := by
  have : ns.filter (· < 0) = [] := by rw [List.filter_eq_nil_iff]; intro a _; simp
  simp [RInv, written, this, rowsOf, emptyRows]

def constRec (ev : Nat → K) : Rec Unit K := { init := (), next := fun _ _ => (), read := fun i _ => ev i }
theorem constRec_eval (ev : Nat → K) (n : Nat) : (constRec ev).eval n = ev n := rfl

/-- one `emit` moves the written prefix from bound `i` to bound `i+1` -/
theorem emit_written (ns : List Nat) (hpw : ns.Pairwise (· < ·)) (ev : Nat → K) (i : Nat) :
    emit ns i (ev i) (written ns ev i, (written ns ev i).length)
      = (written ns ev (i+1), (written ns ev (i+1)).length) := by
  have hs := sorted_split ns hpw i
  have hrest : (ns.filter (fun a => i ≤ a)).Pairwise (· < ·) := hpw.sublist List.filter_sublist
  have hge : ∀ a ∈ ns.filter (fun a => i ≤ a), i ≤ a := by
    intro a ha; simpa using (List.mem_filter.mp ha).2
  have := sweepLoop_spec (constRec ev) 1 i (ns.filter (· < i)) (ns.filter (fun a => i ≤ a)) (written ns ev i) hrest hge
  rw [← hs] at this
  simp only [sweepLoop, constRec] at this
  have hlen : (written ns ev i).length = (ns.filter (· < i)).length := by simp [written]
  rw [hlen]
  -- filter (< i+1) of the whole list = filter (< i) ++ filter (< i+1) of the upper part
  have hf : ns.filter (· < i + 1) = ns.filter (· < i) ++ (ns.filter (fun a => i ≤ a)).filter (· < i + 1) := by
    conv_lhs => rw [hs]
    rw [List.filter_append]
    congr 1
    rw [List.filter_filter]
    apply List.filter_congr; intro a _; simp; omega
  have hw : written ns ev (i+1) = written ns ev i ++ ((ns.filter (fun a => i ≤ a)).filter (· < i + 1)).map ev := by
    simp [written, hf]
  rw [this, hw]
  simp [List.length_append, written, constRec_eval]
  intro a _ _ _; rfl


theorem setRow_rowsOf (w : List K) (n : Nat) (v : K) (h : w.length < n) :
    setRow (rowsOf w n) w.length v = rowsOf (w ++ [v]) n := by
  unfold setRow rowsOf
  rw [List.set_append_right _ _ (by simp)]
  obtain ⟨m, hm⟩ : ∃ m, n - w.length = m + 1 := ⟨n - w.length - 1, by omega⟩
  have hm' : n - (w ++ [v]).length = m := by simp; omega
  rw [hm, hm']
  simp [List.replicate_succ]

/-- the literal statement `if ns[k] == i: out[k] = v; k += 1` keeps the invariant and advances the bound -/
theorem RInv_step (ns : List Nat) (hpw : ns.Pairwise (· < ·)) (ev : Nat → K) (i : Nat) (out : Rows K) (k : Nat) (v : K)
    (hv : v = ev i) (h : RInv ns ev i out k) :
    RInv ns ev (i+1) (if ns[k]? = some i then (setRow out k v, k + 1) else (out, k)).1
      (if ns[k]? = some i then (setRow out k v, k + 1) else (out, k)).2 := by
  obtain ⟨hk, ho⟩ := h
  have he := emit_written ns hpw ev i
  unfold emit at he
  simp only [] at he
  subst hv
  rw [hk] at *
  by_cases hc : ns[(written ns ev i).length]? = some i
  · simp only [hc, if_true] at he ⊢
    have hlt : (written ns ev i).length < ns.length := by
      by_contra hge
      rw [List.getElem?_eq_none (by omega)] at hc; cases hc
    have hw : written ns ev (i+1) = written ns ev i ++ [ev i] := (Prod.mk.inj he).1.symm
    refine ⟨by rw [hw]; simp, ?_⟩
    rw [ho, hw]; exact setRow_rowsOf _ _ _ hlt
  · simp only [hc, if_false] at he ⊢
    have hw : written ns ev (i+1) = written ns ev i := (Prod.mk.inj he).1.symm
    exact ⟨by rw [hw], by rw [ho, hw]⟩

theorem mapM_id_map_some (l : List K) : (l.map some).mapM id = some l := by
  induction l with
  | nil => rfl
  | cons a l ih => simp [List.mapM_cons, ih]

/-- `return out` once every requested order is below the bound: all rows are written and hold `ns.map ev` -/
theorem RInv_finish (ns : List Nat) (ev : Nat → K) (i : Nat) (out : Rows K) (k : Nat) (h : RInv ns ev i out k)
    (hall : ∀ a ∈ ns, a < i) : finishRows out = some (ns.map ev) := by
  obtain ⟨_, ho⟩ := h
  have hf : ns.filter (· < i) = ns := by rw [List.filter_eq_self]; intro a ha; simpa using hall a ha
  have hw : written ns ev i = ns.map ev := by simp [written, hf]
  rw [ho, hw]
  have := mapM_id_map_some (ns.map ev)
  simpa [finishRows, rowsOf] using this

/-- an early `if min_i == len(ns): return out` is taken only when every requested order has been written -/
theorem RInv_done (ns : List Nat) (ev : Nat → K) (i : Nat) (out : Rows K) (k : Nat) (h : RInv ns ev i out k)
    (hk : k = ns.length) : finishRows out = some (ns.map ev) := by
  apply RInv_finish ns ev i out k h
  have hlen : (ns.filter (· < i)).length = ns.length := by
    have := h.1; simp only [written, List.length_map] at this; omega
  intro a ha
  have := (List.length_filter_eq_length_iff.mp hlen) a ha
  simpa using this


/-- every member of a strictly ascending list is at most its last element -/
theorem le_lastOrder (ns : List Nat) (hpw : ns.Pairwise (· < ·)) (a : Nat) (ha : a ∈ ns) : (a : Int) ≤ lastOrder ns := by
  unfold lastOrder
  have hne : ns ≠ [] := List.ne_nil_of_mem ha
  obtain ⟨l, mx, rfl⟩ : ∃ l mx, ns = l ++ [mx] := ⟨ns.dropLast, ns.getLast hne, (List.dropLast_append_getLast hne).symm⟩
  simp only [List.getLastD_eq_getLast?, List.getLast?_append, List.getLast?_singleton, Option.some_or, Option.getD_some]
  rcases List.mem_append.mp ha with h | h
  · have := (List.pairwise_append.mp hpw).2.2 a h mx (by simp); omega
  · simp at h; omega

/-- `for i in range(lo, hi)` with an invariant indexed by the number of iterations done -/
theorem forRange_induct' {σ} (P : Nat → σ → Prop) (lo hi : Int) (f : Int → σ → σ) (s : σ) (h0 : P 0 s)
    (hstep : ∀ k s, P k s → P (k+1) (f (lo + k) s)) : P (hi - lo).toNat (Model.C07.forRange lo hi f s) := by
  unfold Model.C07.forRange
  generalize (hi - lo).toNat = n
  suffices h : ∀ (n k : Nat) (s : σ), P k s → P (k + n) (Model.C07.forRange.go f n (lo + k) s) by
    have := h n 0 s h0; simpa using this
  intro n
  induction n with
  | zero => intro k s hs; simpa [Model.C07.forRange.go] using hs
  | succ n ih =>
    intro k s hs
    rw [Model.C07.forRange.go]
    have := ih (k+1) (f (lo + k) s) (hstep k s hs)
    rw [show lo + ((k + 1 : Nat) : Int) = lo + k + 1 by omega] at this
    rw [show k + (n + 1) = k + 1 + n by omega]
    exact this

end C08L
