import PrysmVerif.Lemmas.C17Film
/-!
# C17 — passive (absorbing or lossless) characteristic matrices: closure under products, `R + T ≤ 1`

`flux E H = Re (E · conj H)` is the power flow carried by the tangential fields `(E, H)`.  A characteristic matrix maps
the fields at the back of a layer to the fields at its front; it is *passive* when the flow entering the front is at least
the flow leaving the back.  Passive matrices are closed under products (any number of layers), lossless layers are passive
(with equality), and for a passive product between real media `|r|² + (n_e cos θ_e / n₀ cos θ₀) |t|² ≤ 1`.
-/
namespace C17Film
open Model.C17 C17Num Complex

/-- power flow `Re (E · conj H)` -/
noncomputable def flux (E H : ℂ) : ℝ := (E * (starRingEnd ℂ) H).re

theorem flux_eq (E H : ℂ) : flux E H = E.re * H.re + E.im * H.im := by
  simp [flux, Complex.mul_re]

/-- the flow entering the front of the layer is at least the flow leaving its back, for every field -/
def Passive (M : M22 ℂ) : Prop :=
  ∀ E H : ℂ, flux E H ≤ flux (M.a * E + M.b * H) (M.c * E + M.d * H)

theorem passive_one : Passive (M22.one : M22 ℂ) := by
  intro E H; simp [M22.one]

theorem passive_mul {A B : M22 ℂ} (hA : Passive A) (hB : Passive B) : Passive (A.mul B) := by
  intro E H
  have h1 := hB E H
  have h2 := hA (B.a * E + B.b * H) (B.c * E + B.d * H)
  have e1 : (A.mul B).a * E + (A.mul B).b * H = A.a * (B.a * E + B.b * H) + A.b * (B.c * E + B.d * H) := by
    simp only [M22.mul]; ring
  have e2 : (A.mul B).c * E + (A.mul B).d * H = A.c * (B.a * E + B.b * H) + A.d * (B.c * E + B.d * H) := by
    simp only [M22.mul]; ring
  rw [e1, e2]; linarith

theorem passive_prod (ms : List (M22 ℂ)) (h : ∀ m ∈ ms, Passive m) : Passive (prod ms) := by
  induction ms with
  | nil => exact passive_one
  | cons m ms ih =>
    rw [prod_cons]
    exact passive_mul (h m (by simp)) (ih fun x hx => h x (by simp [hx]))

/-- a lossless matrix `[[p, i q], [i r, s]]`, `p s + q r = 1`, conserves the flow exactly -/
theorem lossless_flux (m : LM) (hm : m.det = 1) (E H : ℂ) :
    flux (m.toC.a * E + m.toC.b * H) (m.toC.c * E + m.toC.d * H) = flux E H := by
  simp only [LM.det] at hm
  simp only [flux_eq, LM.toC, Complex.add_re, Complex.add_im, Complex.mul_re, Complex.mul_im, Complex.ofReal_re,
    Complex.ofReal_im, Complex.I_re, Complex.I_im]
  ring_nf
  linear_combination (E.re * H.re + E.im * H.im) * hm

theorem lossless_passive (m : LM) (hm : m.det = 1) : Passive m.toC :=
  fun E H => le_of_eq (lossless_flux m hm E H).symm

/-- `|A₀₀|² - |A₁₀|²` is the flow at the front of the stack divided by the ambient admittance (s-polarisation) -/
theorem amatS_flux (M : M22 ℂ) (n0 c0 ne ce : ℝ) (h0 : n0 * c0 ≠ 0) :
    normSq (amatS (n0 : ℂ) c0 M ne ce).a - normSq (amatS (n0 : ℂ) c0 M ne ce).c =
      flux (M.a * 1 + M.b * ((ne * ce : ℝ) : ℂ)) (M.c * 1 + M.d * ((ne * ce : ℝ) : ℂ)) / (n0 * c0) := by
  have hn : n0 ≠ 0 := left_ne_zero_of_mul h0
  have hc : c0 ≠ 0 := right_ne_zero_of_mul h0
  set E := M.a * 1 + M.b * ((ne * ce : ℝ) : ℂ) with hE
  set H := M.c * 1 + M.d * ((ne * ce : ℝ) : ℂ) with hH
  have ea : (amatS (n0 : ℂ) c0 M ne ce).a = (((n0 * c0 : ℝ) : ℂ) * E + H) / ((2 * (n0 * c0) : ℝ) : ℂ) := by
    simp only [amatS, M22.mul, M22.smul, ofInt_eq, hE, hH]; push_cast; field_simp; ring
  have ec : (amatS (n0 : ℂ) c0 M ne ce).c = (((n0 * c0 : ℝ) : ℂ) * E - H) / ((2 * (n0 * c0) : ℝ) : ℂ) := by
    simp only [amatS, M22.mul, M22.smul, ofInt_eq, hE, hH]; push_cast; field_simp; ring
  rw [ea, ec, normSq_div, normSq_div, normSq_ofReal, flux_eq]
  simp only [normSq_apply, Complex.add_re, Complex.add_im, Complex.sub_re, Complex.sub_im, Complex.mul_re, Complex.mul_im,
    Complex.ofReal_re, Complex.ofReal_im]
  field_simp
  ring

/-- the same for p-polarisation -/
theorem amatP_flux (M : M22 ℂ) (n0 c0 ne ce : ℝ) (h0 : n0 * c0 ≠ 0) :
    normSq (amatP (n0 : ℂ) c0 M ne ce).a - normSq (amatP (n0 : ℂ) c0 M ne ce).c =
      flux (M.a * (ce : ℂ) + M.b * (ne : ℂ)) (M.c * (ce : ℂ) + M.d * (ne : ℂ)) / (n0 * c0) := by
  have hn : n0 ≠ 0 := left_ne_zero_of_mul h0
  have hc : c0 ≠ 0 := right_ne_zero_of_mul h0
  set E := M.a * (ce : ℂ) + M.b * (ne : ℂ) with hE
  set H := M.c * (ce : ℂ) + M.d * (ne : ℂ) with hH
  have ea : (amatP (n0 : ℂ) c0 M ne ce).a = ((n0 : ℂ) * E + (c0 : ℂ) * H) / ((2 * (n0 * c0) : ℝ) : ℂ) := by
    simp only [amatP, M22.mul, M22.smul, ofInt_eq, hE, hH]; push_cast; field_simp; ring
  have ec : (amatP (n0 : ℂ) c0 M ne ce).c = ((n0 : ℂ) * E - (c0 : ℂ) * H) / ((2 * (n0 * c0) : ℝ) : ℂ) := by
    simp only [amatP, M22.mul, M22.smul, ofInt_eq, hE, hH]; push_cast; field_simp; ring
  rw [ea, ec, normSq_div, normSq_div, normSq_ofReal, flux_eq]
  simp only [normSq_apply, Complex.add_re, Complex.add_im, Complex.sub_re, Complex.sub_im, Complex.mul_re, Complex.mul_im,
    Complex.ofReal_re, Complex.ofReal_im]
  field_simp
  ring

/-- from `|a|² - |c|² ≥ τ > 0`: `|c/a|² + τ |1/a|² ≤ 1` -/
theorem rt_le_of_energy (a c : ℂ) (τ : ℝ) (hτ : 0 < τ) (h : τ ≤ normSq a - normSq c) :
    normSq (c / a) + τ * normSq (1 / a) ≤ 1 := by
  have hc : 0 ≤ normSq c := normSq_nonneg c
  have ha : 0 < normSq a := by linarith
  rw [normSq_div, normSq_div, normSq_one, div_add' _ _ _ (ne_of_gt ha), div_le_one ha]
  have : τ * (1 / normSq a) * normSq a = τ := by field_simp
  linarith

end C17Film
