import PrysmVerif.Model.C14
import PrysmVerif.Lemmas.PyArith
import Mathlib.Tactic.Ring
import Mathlib.Tactic.Linarith
import Mathlib.Tactic.FieldSimp
import Mathlib.Algebra.Order.Floor.Ring
import Mathlib.Algebra.Order.Field.Basic
/-!
# C14 — helper lemmas: fixed-width integers, the header buffer, flips as index maps, quantisation, truncation
-/
set_option linter.unusedTactic false
set_option linter.unusedVariables false

namespace C14L
open Model.C14

/-! ## fixed-width integers -/


theorem length_encLE (k u : Nat) : (encLE k u).length = k := by
  induction k generalizing u with
  | zero => rfl
  | succ k ih => simp [encLE, ih]

theorem decLE_encLE (k u : Nat) : decLE (encLE k u) = u % 256 ^ k := by
  induction k generalizing u with
  | zero => simp [encLE, decLE, Nat.mod_one]
  | succ k ih => simp only [encLE, decLE, ih]; rw [pow_succ', Nat.mod_mul]

theorem encLE_lt (k u : Nat) : ∀ b ∈ encLE k u, b < 256 := by
  induction k generalizing u with
  | zero => simp [encLE]
  | succ k ih =>
    intro b hb
    simp only [encLE, List.mem_cons] at hb
    rcases hb with rfl | hb
    · exact Nat.mod_lt _ (by decide)
    · exact ih _ b hb

theorem decBE_encBE (k u : Nat) : decBE (encBE k u) = u % 256 ^ k := by
  simp [decBE, encBE, decLE_encLE]

theorem be32_roundtrip (v : Int) (h1 : -2147483648 ≤ v) (h2 : v < 2147483648) : de32 (be32 v) = v := by
  simp only [de32, be32, decBE_encBE, ofU32, toU32]
  have : (256:Nat)^4 = 4294967296 := by norm_num
  rw [this]
  omega

/-! ## the header buffer -/


theorem length_packStr (n : Nat) (b : List Nat) : (packStr n b).length = n := by simp [packStr]

theorem length_packDflt (r : Row) (d : Dflt) : (r.packDflt d).length = r.size := length_packStr _ _
theorem length_payload (r : Row) (a : WArgs) (s : Src) : (r.payload a s).length = r.size := length_packStr _ _

/-- two fields do not overlap -/
def FieldsDisjoint (p q : Nat × List Nat) : Prop := p.1 + p.2.length ≤ q.1 ∨ q.1 + q.2.length ≤ p.1

theorem writeAll_outside (fields : List (Nat × List Nat)) (buf : Nat → Nat) (i : Nat)
    (h : ∀ p ∈ fields, ¬ (p.1 ≤ i ∧ i < p.1 + p.2.length)) : writeAll buf fields i = buf i := by
  induction fields generalizing buf with
  | nil => rfl
  | cons p rest ih =>
    obtain ⟨lo, b⟩ := p
    simp only [writeAll]
    rw [ih _ (fun q hq => h q (List.mem_cons_of_mem _ hq))]
    have := h (lo, b) (List.mem_cons_self)
    simp only [writeAt]
    rw [if_neg this]

theorem writeAll_inside (fields : List (Nat × List Nat)) (buf : Nat → Nat)
    (hd : fields.Pairwise FieldsDisjoint) (lo : Nat) (b : List Nat) (hm : (lo, b) ∈ fields)
    (i : Nat) (hi : i < b.length) : writeAll buf fields (lo + i) = b.getD i 0 := by
  induction fields generalizing buf with
  | nil => cases hm
  | cons p rest ih =>
    obtain ⟨lo', b'⟩ := p
    rw [List.pairwise_cons] at hd
    simp only [writeAll]
    rcases List.mem_cons.1 hm with heq | hm'
    · cases heq
      rw [writeAll_outside]
      · simp only [writeAt]
        rw [if_pos ⟨by omega, by omega⟩]
        congr 1; omega
      · intro q hq hin
        have := hd.1 q hq
        simp only [FieldsDisjoint] at this
        omega
    · exact ih _ hd.2 hm'

theorem slice_getD (buf : Nat → Nat) (lo hi i : Nat) (h : lo + i < hi) : (slice buf lo hi).getD i 0 = buf (lo + i) := by
  simp only [slice]
  rw [List.getD_eq_getElem?_getD, List.getElem?_map, List.getElem?_range (by omega)]
  rfl
theorem pairwise_of_disjointRows (rows : List Row) (h : disjointRows rows = true) :
    rows.Pairwise (fun r s => r.hi ≤ s.lo ∨ s.hi ≤ r.lo) := by
  induction rows with
  | nil => exact List.Pairwise.nil
  | cons r rs ih =>
    simp only [disjointRows, Bool.and_eq_true, List.all_eq_true, Bool.or_eq_true, decide_eq_true_eq] at h
    exact List.Pairwise.cons (fun s hs => h.1 s hs) (ih h.2)

theorem wf_row (rows : List Row) (h : rowsWellFormed rows = true) (r : Row) (hr : r ∈ rows) :
    r.lo + r.size = r.hi ∧ r.hi ≤ headerLen := by
  simp only [rowsWellFormed, List.all_eq_true, Bool.and_eq_true, decide_eq_true_eq, beq_iff_eq] at h
  have := h r hr
  omega

theorem header_field_readback (table : List Row) (sets : List (String × Src)) (a : WArgs)
    (hwf : rowsWellFormed table = true) (hdj : disjointRows table = true)
    (r : Row) (hr : r ∈ table) (hp : r.isPad = false) (i : Nat) (hi : i < r.size) :
    (headerBytes table sets a).getD (r.lo + i) 0 = (r.payload a (lookupSrc sets r.name)).getD i 0 := by
  have hw := wf_row table hwf r hr
  simp only [headerBytes]
  rw [slice_getD _ _ _ _ (by omega), Nat.zero_add]
  apply writeAll_inside
  · rw [List.pairwise_map]
    refine List.Pairwise.imp_of_mem ?_ ((pairwise_of_disjointRows table hdj).filter _)
    intro s t hs ht hst
    have h1 := wf_row table hwf s (List.mem_filter.1 hs).1
    have h2 := wf_row table hwf t (List.mem_filter.1 ht).1
    simp only [FieldsDisjoint, length_payload]
    omega
  · exact List.mem_map.2 ⟨r, List.mem_filter.2 ⟨hr, by simp [hp]⟩, rfl⟩
  · rw [length_payload]; exact hi

theorem length_headerBytes (table : List Row) (sets : List (String × Src)) (a : WArgs) :
    (headerBytes table sets a).length = headerLen := by
  simp [headerBytes, slice]

theorem getD_append_l (l₁ l₂ : List Nat) (i : Nat) (h : i < l₁.length) : (l₁ ++ l₂).getD i 0 = l₁.getD i 0 := by
  simp only [List.getD_eq_getElem?_getD, List.getElem?_append_left h]

theorem getD_append_r (l₁ l₂ : List Nat) (i : Nat) (h : l₁.length ≤ i) : (l₁ ++ l₂).getD i 0 = l₂.getD (i - l₁.length) 0 := by
  simp only [List.getD_eq_getElem?_getD, List.getElem?_append_right h]

/-- a header field of the complete file reads back the bytes packed into it -/
theorem file_field_readback (table : List Row) (sets : List (String × Src)) (a : WArgs) (vals : List Float)
    (hwf : rowsWellFormed table = true) (hdj : disjointRows table = true)
    (r : Row) (hr : r ∈ table) (hp : r.isPad = false) (i : Nat) (hi : i < r.size) :
    (zygoFile table sets a vals).getD (r.lo + i) 0 = (r.payload a (lookupSrc sets r.name)).getD i 0 := by
  have hl := length_headerBytes table sets a
  have hw := wf_row table hwf r hr
  simp only [zygoFile]
  rw [getD_append_l _ _ _ (by rw [hl]; omega)]
  exact header_field_readback table sets a hwf hdj r hr hp i hi

theorem rb2 (f : List Nat) (lo v : Nat) (hv : v < 65536)
    (h : ∀ i, i < 2 → f.getD (lo + i) 0 = (packStr 2 (encBE 2 v)).getD i 0) : hdrU16 f lo = v := by
  have h0 := h 0 (by decide); have h1 := h 1 (by decide)
  simp only [Nat.add_zero] at h0
  simp only [hdrU16, h0, h1]
  simp [packStr, encBE, encLE, decBE, decLE]
  omega

theorem rb4 (f : List Nat) (lo v : Nat) (hv : v < 4294967296)
    (h : ∀ i, i < 4 → f.getD (lo + i) 0 = (packStr 4 (encBE 4 v)).getD i 0) : hdrU32 f lo = v := by
  have h0 := h 0 (by decide); have h1 := h 1 (by decide); have h2 := h 2 (by decide); have h3 := h 3 (by decide)
  simp only [Nat.add_zero] at h0
  simp only [hdrU32, h0, h1, h2, h3]
  simp [packStr, encBE, encLE, decBE, decLE]
  omega

theorem f32Bits_lt (x : Float) : f32Bits x < 4294967296 := by
  simp only [f32Bits]; exact UInt32.toNat_lt _

theorem field_u16 (table : List Row) (sets : List (String × Src))
    (hwf : rowsWellFormed table = true) (hdj : disjointRows table = true)
    (r : Row) (lo v : Nat) (a : WArgs) (vals : List Float) (hv : v < 65536)
    (hm : r ∈ table) (hp : r.isPad = false) (hlo : r.lo = lo) (hs : r.size = 2)
    (hraw : (lookupSrc sets r.name).raw a r = encBE 2 v) :
    hdrU16 (zygoFile table sets a vals) lo = v := by
  refine rb2 _ _ _ hv (fun i hi => ?_)
  have k := file_field_readback table sets a vals hwf hdj r hm hp i (by omega)
  rw [← hlo, k, Row.payload, hs, hraw]

theorem field_u32 (table : List Row) (sets : List (String × Src))
    (hwf : rowsWellFormed table = true) (hdj : disjointRows table = true)
    (r : Row) (lo v : Nat) (a : WArgs) (vals : List Float) (hv : v < 4294967296)
    (hm : r ∈ table) (hp : r.isPad = false) (hlo : r.lo = lo) (hs : r.size = 4)
    (hraw : (lookupSrc sets r.name).raw a r = encBE 4 v) :
    hdrU32 (zygoFile table sets a vals) lo = v := by
  refine rb4 _ _ _ hv (fun i hi => ?_)
  have k := file_field_readback table sets a vals hwf hdj r hm hp i (by omega)
  rw [← hlo, k, Row.payload, hs, hraw]

theorem unpack_pack (e : Endian) (k v : Nat) (hv : v < 256 ^ k) : unpackNum e (packNum e k v) = v := by
  cases e <;> simp only [unpackNum, packNum, decBE_encBE, decLE_encLE] <;> exact Nat.mod_eq_of_lt hv

theorem length_packNum (e : Endian) (k v : Nat) : (packNum e k v).length = k := by
  cases e <;> simp [packNum, encBE, length_encLE]

theorem packStr_self (n : Nat) (l : List Nat) (h : l.length = n) : packStr n l = l := by
  subst h
  apply List.ext_getElem
  · simp [packStr]
  · intro i h1 h2
    simp [packStr, List.getD_eq_getElem?_getD, List.getElem?_eq_getElem h2]

theorem fileSlice_eq (f : List Nat) (lo n : Nat) (p : List Nat) (hp : p.length = n)
    (h : ∀ i, i < n → f.getD (lo + i) 0 = p.getD i 0) :
    (List.range n).map (fun i => f.getD (lo + i) 0) = p := by
  subst hp
  apply List.ext_getElem
  · simp
  · intro i h1 h2
    simp only [List.length_map, List.length_range] at h1
    simp only [List.getElem_map, List.getElem_range]
    rw [h i h1, List.getD_eq_getElem?_getD, List.getElem?_eq_getElem h2]; rfl

/-- the slice of the file a header field occupies is exactly the bytes packed into it -/
theorem header_bytes_roundtrip (table : List Row) (sets : List (String × Src)) (a : WArgs) (vals : List Float)
    (hwf : rowsWellFormed table = true) (hdj : disjointRows table = true)
    (r : Row) (hr : r ∈ table) (hp : r.isPad = false) :
    fileSlice (zygoFile table sets a vals) r.lo r.hi = r.payload a (lookupSrc sets r.name) := by
  have hw := wf_row table hwf r hr
  have e : r.hi - r.lo = r.size := by omega
  simp only [fileSlice, e]
  exact fileSlice_eq _ _ _ _ (length_payload r a _) (fun i hi => file_field_readback table sets a vals hwf hdj r hr hp i hi)

/-- a numeric header field unpacks to the value that was packed, in the field's own byte order -/
theorem header_value_roundtrip (table : List Row) (sets : List (String × Src)) (a : WArgs) (vals : List Float)
    (hwf : rowsWellFormed table = true) (hdj : disjointRows table = true)
    (r : Row) (hr : r ∈ table) (hp : r.isPad = false) (v : Nat) (hv : v < 256 ^ r.size)
    (hraw : (lookupSrc sets r.name).raw a r = packNum r.endian r.size v) :
    r.unpack (zygoFile table sets a vals) = v := by
  simp only [Row.unpack, header_bytes_roundtrip table sets a vals hwf hdj r hr hp, Row.payload, hraw]
  rw [packStr_self _ _ (length_packNum _ _ _), unpack_pack _ _ _ hv]

/-! ## flips -/


theorem div_lt_of_lt_mul' {h w i : Nat} (hi : i < h * w) : i / w < h := by
  rcases Nat.eq_zero_or_pos w with rfl | hw
  · simp at hi
  · exact (Nat.div_lt_iff_lt_mul hw).2 hi

theorem pos_of_lt_mul {h w i : Nat} (hi : i < h * w) : 0 < w := by
  rcases Nat.eq_zero_or_pos w with rfl | hw
  · simp at hi
  · exact hw

theorem rc_div (w r c : Nat) (hc : c < w) : (r * w + c) / w = r := by
  rw [Nat.add_comm, Nat.add_mul_div_right _ _ (by omega), Nat.div_eq_of_lt hc, Nat.zero_add]

theorem rc_mod (w r c : Nat) (hc : c < w) : (r * w + c) % w = c := by
  rw [Nat.add_comm, Nat.add_mul_mod_self_right, Nat.mod_eq_of_lt hc]

theorem rc_lt (h w r c : Nat) (hr : r < h) (hc : c < w) : r * w + c < h * w := by
  have : (r + 1) * w ≤ h * w := Nat.mul_le_mul_right _ hr
  rw [Nat.add_mul] at this; omega

theorem flipIdx_lt (k : Flip) (h w i : Nat) (hi : i < h * w) : flipIdx k h w i < h * w := by
  have hw := pos_of_lt_mul hi
  have hr := div_lt_of_lt_mul' hi
  have hc := Nat.mod_lt i hw
  cases k <;> simp only [flipIdx]
  · exact hi
  · exact rc_lt h w _ _ (by generalize i / w = q at hr; omega) hc
  · exact rc_lt h w _ _ hr (by omega)
  · omega

theorem flipIdx_rows_rows (h w i : Nat) (hi : i < h * w) : flipIdx .rows h w (flipIdx .rows h w i) = i := by
  have hw := pos_of_lt_mul hi
  have hr := div_lt_of_lt_mul' hi
  have hc := Nat.mod_lt i hw
  simp only [flipIdx]
  rw [rc_div w _ _ hc, rc_mod w _ _ hc]
  have : h - 1 - (h - 1 - i / w) = i / w := by generalize i / w = q at hr; omega
  rw [this]; exact Nat.div_add_mod' i w

theorem flipIdx_cols_cols (h w i : Nat) (hi : i < h * w) : flipIdx .cols h w (flipIdx .cols h w i) = i := by
  have hw := pos_of_lt_mul hi
  have hc := Nat.mod_lt i hw
  simp only [flipIdx]
  rw [rc_div w _ _ (by omega), rc_mod w _ _ (by omega)]
  have : w - 1 - (w - 1 - i % w) = i % w := by omega
  rw [this]; exact Nat.div_add_mod' i w

theorem flipIdx_both_both (h w i : Nat) (hi : i < h * w) : flipIdx .both h w (flipIdx .both h w i) = i := by
  simp only [flipIdx]; omega

/-- reversing the flat buffer is a row flip followed by a column flip -/
theorem flipIdx_both_eq (h w i : Nat) (hi : i < h * w) : flipIdx .both h w i = flipIdx .rows h w (flipIdx .cols h w i) := by
  have hw := pos_of_lt_mul hi
  have hr := div_lt_of_lt_mul' hi
  have hc := Nat.mod_lt i hw
  simp only [flipIdx]
  rw [rc_div w _ _ (by omega), rc_mod w _ _ (by omega)]
  have e := Nat.div_add_mod' i w
  have : (h - 1 - i / w) * w = h * w - w - (i / w) * w := by
    rw [Nat.sub_mul, Nat.sub_mul]; simp
  have hle : (i / w + 1) * w ≤ h * w := Nat.mul_le_mul_right _ hr
  rw [Nat.add_mul] at hle
  omega

/-- writer flips rows, reader reverses the flat buffer: the composite is a column mirror -/
theorem rows_then_both (h w i : Nat) (hi : i < h * w) : flipIdx .rows h w (flipIdx .both h w i) = flipIdx .cols h w i := by
  rw [flipIdx_both_eq h w i hi, flipIdx_rows_rows h w _ (flipIdx_lt .cols h w i hi)]

/-! ## quantisation -/


/-- truncation toward zero moves a number by less than one, toward zero -/
theorem truncRat_bounds (y : ℚ) : |y - (truncRat y : ℚ)| < 1 ∧ |(truncRat y : ℚ)| ≤ |y| := by
  unfold truncRat
  split
  · rename_i h
    rw [Rat.ceil_eq_intCeil]
    have h1 := Int.le_ceil y
    have h2 := Int.ceil_lt_add_one y
    have h3 : (⌈y⌉ : ℚ) ≤ 0 := by exact_mod_cast Int.ceil_le.2 (by simpa using h.le)
    constructor
    · rw [abs_lt]; constructor <;> linarith
    · rw [abs_of_nonpos h3, abs_of_neg h]; linarith
  · rename_i h
    push Not at h
    rw [Rat.floor_eq_intFloor]
    have h1 := Int.floor_le y
    have h2 := Int.lt_floor_add_one y
    have h3 : (0 : ℚ) ≤ (⌊y⌋ : ℚ) := by exact_mod_cast Int.floor_nonneg.2 h
    constructor
    · rw [abs_lt]; constructor <;> linarith
    · rw [abs_of_nonneg h3, abs_of_nonneg h]; exact h1

theorem quant_error_lemma (x q : ℚ) (hq : 0 < q) : |x - q * (truncRat (x / q) : ℚ)| < q := by
  have h := (truncRat_bounds (x / q)).1
  have : x - q * (truncRat (x / q) : ℚ) = q * (x / q - (truncRat (x / q) : ℚ)) := by field_simp
  rw [this, abs_mul, abs_of_pos hq]
  calc q * |x / q - ↑(truncRat (x / q))| < q * 1 := by exact mul_lt_mul_of_pos_left h hq
    _ = q := mul_one q

/-- banker's rounding picks the floor or the floor plus one, whichever is within one half -/
theorem pyRoundRat_cases (y : ℚ) :
    (pyRoundRat y = ⌊y⌋ ∧ y - (⌊y⌋ : ℚ) ≤ 1 / 2) ∨ (pyRoundRat y = ⌊y⌋ + 1 ∧ 1 / 2 ≤ y - (⌊y⌋ : ℚ)) := by
  show (pyRoundRat y = y.floor ∧ y - (y.floor : ℚ) ≤ 1 / 2) ∨ (pyRoundRat y = y.floor + 1 ∧ 1 / 2 ≤ y - (y.floor : ℚ))
  simp only [pyRoundRat]
  by_cases a : y - (y.floor : ℚ) < 1 / 2
  · left; rw [if_pos a]; exact ⟨rfl, a.le⟩
  · rw [if_neg a]
    by_cases b : 1 / 2 < y - (y.floor : ℚ)
    · right; rw [if_pos b]; exact ⟨rfl, b.le⟩
    · rw [if_neg b]
      have e : y - (y.floor : ℚ) = 1 / 2 := le_antisymm (not_lt.1 b) (not_lt.1 a)
      by_cases c : y.floor % 2 = 0
      · left; rw [if_pos c]; exact ⟨rfl, e.le⟩
      · right; rw [if_neg c]; exact ⟨rfl, e.ge⟩

theorem pyRoundRat_error (y : ℚ) : |y - (pyRoundRat y : ℚ)| ≤ 1 / 2 := by
  have h1 := Int.floor_le y
  have h2 := Int.lt_floor_add_one y
  rcases pyRoundRat_cases y with ⟨e, h⟩ | ⟨e, h⟩ <;> rw [e, abs_le] <;> constructor <;> push_cast <;> linarith

/-- rounding never leaves an integer interval the number is in -/
theorem pyRoundRat_abs_le (y : ℚ) (B : ℤ) (h : |y| ≤ B) : |pyRoundRat y| ≤ B := by
  rw [abs_le] at h ⊢
  have h1 := Int.floor_le y
  have h2 := Int.lt_floor_add_one y
  have hB1 : ⌊y⌋ ≤ B := Int.floor_le_iff.2 (by push_cast; linarith)
  have hB2 : -B ≤ ⌊y⌋ := Int.le_floor.2 (by exact_mod_cast h.1)
  rcases pyRoundRat_cases y with ⟨e, hh⟩ | ⟨e, hh⟩ <;> rw [e]
  · exact ⟨hB2, hB1⟩
  · refine ⟨by omega, ?_⟩
    by_contra hc
    have : ⌊y⌋ = B := by omega
    rw [this] at hh; linarith

/-! ## body bytes and truncation -/
theorem length_be32 (v : Int) : (be32 v).length = 4 := by simp [be32, encBE, length_encLE]

theorem length_bodyBytes (s : List Int) : (bodyBytes s).length = 4 * s.length := by
  induction s with
  | nil => rfl
  | cons v s ih => simp only [bodyBytes, List.flatMap_cons, List.length_append, length_be32, List.length_cons] at *; omega

theorem getD_take' (l : List Nat) (k i : Nat) : (l.take k).getD i 0 = if i < k then l.getD i 0 else 0 := by
  simp only [List.getD_eq_getElem?_getD, List.getElem?_take]
  split <;> rfl

theorem bodyBytes_getD (s : List Int) (j : Nat) (i : Nat) (hi : i < 4) :
    (bodyBytes s).getD (4 * j + i) 0 = (be32 (s.getD j 0)).getD i 0 := by
  induction s generalizing j with
  | nil =>
    have : i = 0 ∨ i = 1 ∨ i = 2 ∨ i = 3 := by omega
    have e : ([] : List Int).getD j 0 = 0 := by simp
    rw [e]
    rcases this with rfl | rfl | rfl | rfl <;> simp [bodyBytes] <;> decide
  | cons v s ih =>
    have hl := length_be32 v
    cases j with
    | zero =>
      simp only [bodyBytes, List.flatMap_cons, Nat.mul_zero, Nat.zero_add, List.getD_cons_zero]
      rw [getD_append_l _ _ _ (by omega)]
    | succ j =>
      simp only [bodyBytes, List.flatMap_cons, List.getD_cons_succ]
      rw [getD_append_r _ _ _ (by omega)]
      have : 4 * (j + 1) + i - (be32 v).length = 4 * j + i := by omega
      rw [this]; exact ih j

theorem list4 (l : List Nat) (h : l.length = 4) : [l.getD 0 0, l.getD 1 0, l.getD 2 0, l.getD 3 0] = l := by
  match l, h with
  | [a, b, c, d], _ => rfl

theorem sampleAt_body (hdr : List Nat) (s : List Int) (j : Nat) :
    sampleAt (hdr ++ bodyBytes s) (hdr.length + 4 * j) = de32 (be32 (s.getD j 0)) := by
  have e : ∀ i, i < 4 → (hdr ++ bodyBytes s).getD (hdr.length + 4 * j + i) 0 = (be32 (s.getD j 0)).getD i 0 := by
    intro i hi
    rw [getD_append_r _ _ _ (by omega)]
    have : hdr.length + 4 * j + i - hdr.length = 4 * j + i := by omega
    rw [this]; exact bodyBytes_getD s j i hi
  simp only [sampleAt]
  have e0 := e 0 (by omega); rw [Nat.add_zero] at e0
  rw [e0, e 1 (by omega), e 2 (by omega), e 3 (by omega), list4 _ (length_be32 _)]

theorem getD_map_range (n : Nat) (g : Nat → Int) (j : Nat) (hj : j < n) : ((List.range n).map g).getD j 0 = g j := by
  simp [List.getD_eq_getElem?_getD, List.getElem?_map, List.getElem?_range hj]

theorem sampleAt_take (f : List Nat) (k off : Nat) (h : off + 4 ≤ k) : sampleAt (f.take k) off = sampleAt f off := by
  simp only [sampleAt, getD_take']
  rw [if_pos (by omega), if_pos (by omega), if_pos (by omega), if_pos (by omega)]

theorem toArray_getD {α} (l : List α) (i : Nat) (d : α) : l.toArray.getD i d = l.getD i d := by
  simp [Array.getD, List.getD_eq_getElem?_getD]
  split <;> rename_i h
  · simp [List.getElem?_eq_getElem h]
  · simp [List.getElem?_eq_none (by omega : l.length ≤ i)]

theorem sampleAtA_toArray (f : List Nat) (off : Nat) : sampleAtA f.toArray off = sampleAt f off := by
  simp only [sampleAtA, sampleAt, toArray_getD]

theorem sliceStart_neg (n : Nat) (b : Int) (hb : 0 < b) : ((sliceStart n (-b) : Nat) : Int) = max 0 ((n : Int) - b) := by
  have h : -b < 0 := by omega
  simp only [sliceStart, if_pos h]
  omega

theorem truncation_safe_lemma (hdr : List Nat) (s : List Int) (hh : hdr.length = headerLen)
    (hs : ∀ j, j < s.length → -2147483648 ≤ s.getD j 0 ∧ s.getD j 0 < 2147483648)
    (k : Nat) (hk : k < headerLen + 4 * s.length) :
    (k < headerLen ∧ readCounts ((hdr ++ bodyBytes s).take k) s.length = none) ∨
    (headerLen ≤ k ∧ ∃ r, readCounts ((hdr ++ bodyBytes s).take k) s.length = some r ∧ r.length = s.length ∧
      ∀ j, j < s.length → r.getD j 0 = if headerLen + 4 * (j + 1) ≤ k then s.getD j 0 else zygoInvalid) := by
  have hlen : ((hdr ++ bodyBytes s).take k).length = k := by
    rw [List.length_take, List.length_append, length_bodyBytes, hh]; omega
  by_cases hc : k < headerLen
  · left; refine ⟨hc, ?_⟩
    simp only [readCounts, readCountsG, hlen, if_pos hc]
  · right; refine ⟨by omega, ?_⟩
    simp only [readCounts, readCountsG, hlen, if_neg hc, sampleAtA_toArray]
    have hm : ¬ (modelMissing (s.length : Int) (k : Int) (headerLen : Int) 0 ≤ 0) := by
      simp only [modelMissing, headerLen] at *; omega
    rw [if_neg hm]
    refine ⟨_, rfl, by simp, ?_⟩
    intro j hj
    rw [getD_map_range _ _ _ hj]
    by_cases hp : headerLen + 4 * (j + 1) ≤ k
    · rw [if_pos hp, if_neg]
      · rw [sampleAt_take _ _ _ (by omega), ← hh, sampleAt_body, be32_roundtrip _ (hs j hj).1 (hs j hj).2]
      · have hb : 0 < modelBacktrack (modelMissing (s.length : Int) (k : Int) (headerLen : Int) 0) := by
          simp only [modelBacktrack, modelMissing, pyCeilDiv, headerLen] at *; omega
        have hs' := sliceStart_neg s.length _ hb
        simp only [modelTailLower]
        simp only [modelBacktrack, modelMissing, pyCeilDiv, headerLen] at *
        omega
    · rw [if_neg hp, if_pos]
      have hb : 0 < modelBacktrack (modelMissing (s.length : Int) (k : Int) (headerLen : Int) 0) := by
        simp only [modelBacktrack, modelMissing, pyCeilDiv, headerLen] at *; omega
      have hs' := sliceStart_neg s.length _ hb
      simp only [modelTailLower]
      simp only [modelBacktrack, modelMissing, pyCeilDiv, headerLen] at *
      omega

/-! ## permutations of sample lists -/

theorem length_permute {α} (d : α) (l : List α) (f : Nat → Nat) : (permute d l f).length = l.length := by
  simp [permute]

theorem permute_getD (l : List Int) (f : Nat → Nat) (i : Nat) (hi : i < l.length) :
    (permute 0 l f).getD i 0 = l.getD (f i) 0 := by
  simp only [permute, toArray_getD]
  exact getD_map_range _ _ _ hi

theorem eq_of_getD (l₁ l₂ : List Int) (hl : l₁.length = l₂.length) (h : ∀ i, i < l₁.length → l₁.getD i 0 = l₂.getD i 0) : l₁ = l₂ := by
  apply List.ext_getElem hl
  intro i h1 h2
  have := h i h1
  simpa [List.getD_eq_getElem?_getD, List.getElem?_eq_getElem h1, List.getElem?_eq_getElem h2] using this

theorem permute_permute (l : List Int) (f g : Nat → Nat)
    (hg : ∀ i, i < l.length → g i < l.length) (hfg : ∀ i, i < l.length → f (g i) = i) :
    permute 0 (permute 0 l f) g = l := by
  apply eq_of_getD
  · simp [length_permute]
  · intro i hi
    rw [length_permute, length_permute] at hi
    rw [permute_getD _ _ _ (by rw [length_permute]; exact hi), permute_getD _ _ _ (hg i hi), hfg i hi]

theorem getD_mem_or_zero (l : List Int) (i : Nat) : l.getD i 0 ∈ l ∨ l.getD i 0 = 0 := by
  by_cases h : i < l.length
  · left; simp [List.getD_eq_getElem?_getD, List.getElem?_eq_getElem h]
  · right; simp [List.getD_eq_getElem?_getD, List.getElem?_eq_none (by omega : l.length ≤ i)]


/-! ## the Code V data block as text -/

/-- a token: non-empty, no white space inside -/
def CleanTok (t : List Char) : Prop := t ≠ [] ∧ ∀ c ∈ t, isWS c = false

theorem splitWS_append_nows (t rest cur : List Char) (h : ∀ c ∈ t, isWS c = false) :
    splitWS (t ++ rest) cur = splitWS rest (cur ++ t) := by
  induction t generalizing cur with
  | nil => simp
  | cons c cs ih =>
    have hc : isWS c = false := h c (List.mem_cons_self)
    have e : splitWS (c :: (cs ++ rest)) cur = splitWS (cs ++ rest) (cur ++ [c]) := by
      simp only [splitWS, hc]; rfl
    rw [List.cons_append, e, ih _ (fun d hd => h d (List.mem_cons_of_mem _ hd))]
    congr 1; simp

theorem splitWS_nl (rest cur : List Char) (h : cur ≠ []) : splitWS ('\n' :: rest) cur = cur :: splitWS rest [] := by
  have : isWS '\n' = true := by decide
  simp [splitWS, this, h]

theorem splitWS_nows (t : List Char) (h : ∀ c ∈ t, isWS c = false) : splitWS t [] = if t.isEmpty then [] else [t] := by
  have := splitWS_append_nows t [] [] h
  simp only [List.append_nil, List.nil_append] at this
  rw [this]; simp [splitWS]

theorem endsWS_append (a b : List Char) (hb : b ≠ []) : endsWS (a ++ b) = endsWS b := by
  simp only [endsWS, List.getLast?_append_of_ne_nil a hb]

theorem endsWS_nows (t : List Char) (ht : t ≠ []) (h : ∀ c ∈ t, isWS c = false) : endsWS t = false := by
  simp only [endsWS]
  have := List.getLast?_eq_some_getLast ht
  rw [this]
  exact h _ (List.getLast_mem ht)

theorem length_cvDataText_cons (t : List Char) (ts : List (List Char)) :
    (cvDataText (t :: ts)).length = t.length + 1 + (cvDataText ts).length := by
  simp [cvDataText]; omega

/-- the tokens of a prefix of the data block: never more than in the whole block, and when there are as many, the prefix
does not end in white space and all tokens but the last are the original ones -/
theorem cut_tokens (toks : List (List Char)) (hc : ∀ t ∈ toks, CleanTok t) (k : Nat) (hk : k < (cvDataText toks).length) :
    (splitWS ((cvDataText toks).take k) []).length ≤ toks.length ∧
    ((splitWS ((cvDataText toks).take k) []).length = toks.length →
      endsWS ((cvDataText toks).take k) = false ∧ (splitWS ((cvDataText toks).take k) []).dropLast = toks.dropLast ∧
      splitWS ((cvDataText toks).take k) [] ≠ []) := by
  induction toks generalizing k with
  | nil => simp [cvDataText] at hk
  | cons t ts ih =>
    have ht := hc t (List.mem_cons_self)
    have hts : ∀ u ∈ ts, CleanTok u := fun u hu => hc u (List.mem_cons_of_mem _ hu)
    have hd : cvDataText (t :: ts) = t ++ ('\n' :: cvDataText ts) := by simp [cvDataText]
    rw [length_cvDataText_cons] at hk
    by_cases hkt : k ≤ t.length
    · have hp : (cvDataText (t :: ts)).take k = t.take k := by
        rw [hd, List.take_append_of_le_length hkt]
      have hnw : ∀ c ∈ t.take k, isWS c = false := fun c hc' => ht.2 c (List.mem_of_mem_take hc')
      rw [hp, splitWS_nows _ hnw]
      by_cases he : (t.take k).isEmpty
      · simp [he]
      · simp only [he]
        refine ⟨by simp, ?_⟩
        intro hl
        have hts0 : ts = [] := by
          cases ts with
          | nil => rfl
          | cons u us => simp at hl
        subst hts0
        refine ⟨endsWS_nows _ (by simpa using he) hnw, by simp, by simp⟩
    · have hk' : k = t.length + (1 + (k - t.length - 1)) := by omega
      have hp : (cvDataText (t :: ts)).take k = t ++ ('\n' :: (cvDataText ts).take (k - t.length - 1)) := by
        rw [hd, List.take_append]
        have e1 : t.take k = t := List.take_of_length_le (by omega)
        have e2 : k - t.length = (k - t.length - 1) + 1 := by omega
        rw [e1, e2, List.take_succ_cons]
        simp
      have hk2 : k - t.length - 1 < (cvDataText ts).length := by omega
      obtain ⟨i1, i2⟩ := ih hts (k - t.length - 1) hk2
      rw [hp, splitWS_append_nows _ _ _ ht.2, List.nil_append, splitWS_nl _ _ ht.1]
      refine ⟨by simp; omega, ?_⟩
      intro hl
      have hl' : (splitWS ((cvDataText ts).take (k - t.length - 1)) []).length = ts.length := by simpa using hl
      obtain ⟨j1, j2, j3⟩ := i2 hl'
      have hpne : (cvDataText ts).take (k - t.length - 1) ≠ [] := by
        intro h0; rw [h0] at j3; simp [splitWS] at j3
      refine ⟨?_, ?_, by simp⟩
      · rw [show t ++ ('\n' :: (cvDataText ts).take (k - t.length - 1)) = (t ++ ['\n']) ++ (cvDataText ts).take (k - t.length - 1) by simp]
        rw [endsWS_append _ _ hpne]; exact j1
      · have tsne : ts ≠ [] := by
          intro h0; subst h0; simp [cvDataText] at hk2
        rw [List.dropLast_cons_of_ne_nil j3, List.dropLast_cons_of_ne_nil tsne, j2]

theorem splitWS_data (toks : List (List Char)) (hc : ∀ t ∈ toks, CleanTok t) : splitWS (cvDataText toks) [] = toks := by
  induction toks with
  | nil => simp [cvDataText, splitWS]
  | cons t ts ih =>
    have ht := hc t (List.mem_cons_self)
    have hd : cvDataText (t :: ts) = t ++ ('\n' :: cvDataText ts) := by simp [cvDataText]
    rw [hd, splitWS_append_nows _ _ _ ht.2, List.nil_append, splitWS_nl _ _ ht.1, ih (fun u hu => hc u (List.mem_cons_of_mem _ hu))]

theorem endsWS_data (toks : List (List Char)) (h : toks ≠ []) : endsWS (cvDataText toks) = true := by
  induction toks with
  | nil => exact absurd rfl h
  | cons t ts ih =>
    have hd : cvDataText (t :: ts) = (t ++ ['\n']) ++ cvDataText ts := by simp [cvDataText]
    by_cases hts : ts = []
    · subst hts
      rw [hd]; simp only [cvDataText, List.flatMap_nil, List.append_nil]
      rw [endsWS_append _ _ (by simp)]; decide
    · rw [hd, endsWS_append _ _ (by
        intro h0; apply hts
        cases ts with
        | nil => rfl
        | cons u us => simp [cvDataText] at h0)]
      exact ih hts

/-! ## the divisor search of the Code V text layout -/

theorem widthSearch_dvd (size fuel width : Nat) (h1 : 1 ≤ width) (h2 : width ≤ fuel + 1) :
    widthSearch size fuel width ∣ size ∧ 1 ≤ widthSearch size fuel width ∧ widthSearch size fuel width ≤ width := by
  induction fuel generalizing width with
  | zero =>
    have : width = 1 := by omega
    subst this; simp [widthSearch]
  | succ fuel ih =>
    simp only [widthSearch]
    split_ifs with a b
    · have : width = 1 := by omega
      subst this; simp
    · exact ⟨Nat.dvd_of_mod_eq_zero b, h1, le_refl _⟩
    · obtain ⟨i1, i2, i3⟩ := ih (width - 1) (by omega) (by omega)
      exact ⟨i1, i2, by omega⟩

/-! ## general file layout (header, intensity block, phase block) -/

theorem getD_append_shift (pre g : List Nat) (i : Nat) : (pre ++ g).getD (pre.length + i) 0 = g.getD i 0 := by
  rw [getD_append_r _ _ _ (by omega)]; congr 1; omega

theorem sampleAt_append_r (pre g : List Nat) (i : Nat) : sampleAt (pre ++ g) (pre.length + i) = sampleAt g i := by
  simp only [sampleAt, Nat.add_assoc, getD_append_shift]

/-- re-basing: a reader at layout `(hdr, ilen)` on `pre ++ g` with `pre` exactly the header and the intensity block sees
what the plain reader sees on an 834-byte header followed by `g` -/
theorem readCountsAt_rebase (hdr ilen : Nat) (pre g : List Nat) (n : Nat) (hp : pre.length = hdr + ilen * 2) :
    readCountsAt hdr ilen (pre ++ g) n = readCounts (List.replicate headerLen 0 ++ g) n := by
  have hz : (List.replicate headerLen (0:Nat)).length = headerLen := List.length_replicate
  have hs : ∀ j, sampleAt (pre ++ g) (hdr + ilen * 2 + 4 * j) = sampleAt (List.replicate headerLen 0 ++ g) (headerLen + 4 * j) := by
    intro j
    have h2 := sampleAt_append_r (List.replicate headerLen 0) g (4 * j)
    rw [hz] at h2
    rw [← hp, sampleAt_append_r, h2]
  have hm : modelMissing (n : Int) ((hdr + ilen * 2 + g.length : Nat) : Int) (hdr : Int) (ilen : Int)
      = modelMissing (n : Int) ((headerLen + g.length : Nat) : Int) (headerLen : Int) 0 := by
    simp only [modelMissing]; push_cast; ring
  have h1 : ¬ (hdr + ilen * 2 + g.length < hdr + ilen * 2) := by omega
  have h2 : ¬ (headerLen + g.length < headerLen) := by omega
  simp only [readCountsAt, readCountsAtG, readCounts, readCountsG, List.length_append, hp, hz, sampleAtA_toArray, hs, hm,
    if_neg h1, if_neg h2]
/-! ## intensity block read-back -/

theorem intensityBytes_cons (x : Nat) (t : List Nat) : intensityBytes (x :: t) = x % 256 :: (x / 256) % 256 :: intensityBytes t := by
  simp [intensityBytes, encLE]

theorem intensityAt_block (v rest : List Nat) (hv : ∀ x ∈ v, x < 65536) (i : Nat) (hi : i < v.length) :
    intensityAt (intensityBytes v ++ rest) 0 i = v.getD i 0 := by
  induction v generalizing i with
  | nil => simp at hi
  | cons x t ih =>
    have hx : x < 65536 := hv x (by simp)
    cases i with
    | zero =>
      simp only [intensityAt, intensityBytes_cons, decLE]
      simp
      omega
    | succ j =>
      have := ih (fun y hy => hv y (by simp [hy])) j (by simpa using hi)
      simp only [intensityAt, intensityBytes_cons] at this ⊢
      rw [show 0 + 2 * (j + 1) = (0 + 2 * j) + 2 by omega, show 0 + 2 * j + 2 + 1 = (0 + 2 * j + 1) + 1 + 1 by omega,
        show 0 + 2 * j + 2 = (0 + 2 * j) + 1 + 1 by omega]
      simp only [List.cons_append, List.getD_cons_succ, List.getD_eq_getElem?_getD] at this ⊢
      simpa using this

/-- the intensity block reads back: sample `i` of a block of 16-bit values written little-endian right after a header
(or any prefix) of `pre.length` bytes is the value written, whatever follows the block -/
theorem intensity_roundtrip (pre v rest : List Nat) (hv : ∀ x ∈ v, x < 65536) (i : Nat) (hi : i < v.length) :
    intensityAt (pre ++ (intensityBytes v ++ rest)) pre.length i = v.getD i 0 := by
  have := intensityAt_block v rest hv i hi
  simp only [intensityAt] at this ⊢
  rw [Nat.add_assoc, getD_append_shift, getD_append_shift]
  simpa using this

/-! ## Code V preamble -/

theorem isBangG_append (strip : List Char) (marker : Char) (l m : List Char) (h : isBangG strip marker l = true) :
    isBangG strip marker (l ++ m) = true := by
  induction l with
  | nil => simp [isBangG] at h
  | cons c l ih =>
    simp only [isBangG, List.cons_append, List.dropWhile_cons] at h ⊢
    by_cases hc : strip.contains c = true
    · simp only [hc, if_true] at h ⊢; exact ih h
    · simp only [hc] at h ⊢; simpa using h

theorem dropLine_line (l m : List Char) (h : '\n' ∉ l) : dropLine (l ++ '\n' :: m) = some m := by
  induction l with
  | nil => simp [dropLine]
  | cons c l ih =>
    have hc : c ≠ '\n' := fun e => h (by simp [e])
    simp only [List.cons_append, dropLine, if_neg hc]
    exact ih (fun hm => h (by simp [hm]))

theorem takeLine_line (l m : List Char) (h : '\n' ∉ l) : takeLine (l ++ '\n' :: m) = l := by
  induction l with
  | nil => simp [takeLine]
  | cons c l ih =>
    have hc : c ≠ '\n' := fun e => h (by simp [e])
    simp only [List.cons_append, takeLine, if_neg hc]
    rw [ih (fun hm => h (by simp [hm]))]

/-- comment lines are skipped, all of them and nothing else -/
theorem comments_skipped (strip : List Char) (marker : Char) (cs : List (List Char))
    (hc : ∀ l ∈ cs, isBangG strip marker l = true ∧ '\n' ∉ l) (rest : List Char) (hr : isBangG strip marker rest = false)
    (fuel : Nat) (hf : cs.length < fuel) :
    skipCommentsG strip marker fuel (cs.flatMap (· ++ ['\n']) ++ rest) = some rest := by
  induction cs generalizing fuel with
  | nil =>
    cases fuel with
    | zero => rfl
    | succ f => simp [skipCommentsG, hr]
  | cons l cs ih =>
    cases fuel with
    | zero => simp at hf
    | succ f =>
      have hl := hc l (by simp)
      have e : (l :: cs).flatMap (· ++ ['\n']) ++ rest = l ++ '\n' :: (cs.flatMap (· ++ ['\n']) ++ rest) := by simp
      rw [e]
      simp only [skipCommentsG, isBangG_append _ _ _ _ hl.1, if_true, dropLine_line _ _ hl.2]
      exact ih (fun x hx => hc x (by simp [hx])) f (by simpa using hf)
theorem length_le_flatMap_lines (cs : List (List Char)) : cs.length ≤ (cs.flatMap (· ++ ['\n'])).length := by
  induction cs with
  | nil => simp
  | cons l cs ih => simp only [List.flatMap_cons, List.length_append, List.length_cons, List.length_nil]; omega

/-- the preamble of a grid INT file: any number of comment lines, then the title line, then the header line, then the data -/
theorem preamble_roundtrip (strip : List Char) (marker : Char) (cs : List (List Char))
    (hc : ∀ l ∈ cs, isBangG strip marker l = true ∧ '\n' ∉ l) (title hdr data : List Char)
    (ht : '\n' ∉ title) (hh : '\n' ∉ hdr) (hr : isBangG strip marker (title ++ '\n' :: (hdr ++ '\n' :: data)) = false) :
    cvPreambleG strip marker (cs.flatMap (· ++ ['\n']) ++ (title ++ '\n' :: (hdr ++ '\n' :: data)))
      = some (title, hdr, data) := by
  have hf : cs.length < (cs.flatMap (· ++ ['\n']) ++ (title ++ '\n' :: (hdr ++ '\n' :: data))).length + 1 := by
    have := length_le_flatMap_lines cs
    simp only [List.length_append]; omega
  simp only [cvPreambleG, comments_skipped strip marker cs hc _ hr _ hf, dropLine_line _ _ ht, dropLine_line _ _ hh,
    takeLine_line _ _ ht, takeLine_line _ _ hh, Option.getD_some]
end C14L
