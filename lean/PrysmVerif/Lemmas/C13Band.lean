import PrysmVerif.Lemmas.C13Trapz
import PrysmVerif.Lemmas.C13Dft
import Mathlib.Analysis.Real.Sqrt
/-!
# C13 — helpers for the full-band bound (outermost samples), mean square, non-negativity of the model PSD
-/
namespace C13L
open scoped C13L
open Model.C13 Finset

/-- sample `(i, j)` lies on an outermost row or column of an `m × n` array -/
def outer (m n i j : ℕ) : Prop := i = 0 ∨ i + 1 = m ∨ j = 0 ∨ j + 1 = n

instance (m n i j : ℕ) : Decidable (outer m n i j) := by unfold outer; infer_instance

theorem one_sub_tw_mul (m n i j : ℕ) (hi : i < m) (hj : j < n) :
    0 ≤ 1 - tw m i * tw n j ∧ 1 - tw m i * tw n j ≤ if outer m n i j then 1 else 0 := by
  have a0 := tw_nonneg m i; have a1 := tw_le_one m i
  have b0 := tw_nonneg n j; have b1 := tw_le_one n j
  constructor
  · nlinarith
  · by_cases h : outer m n i j
    · rw [if_pos h]; nlinarith
    · rw [if_neg h]
      unfold outer at h
      simp only [not_or] at h
      rw [tw_interior m i (by omega) (by omega), tw_interior n j (by omega) (by omega)]
      norm_num

theorem meanSq_eq (k : ℕ) (z : ℕ → ℝ) : meanSq k z = (∑ i ∈ range k, z i ^ 2) / k := by
  simp only [meanSq, sumTo_eq, ofInt_eq, Int.cast_natCast]
  congr 1
  refine sum_congr rfl fun i _ => ?_
  ring

theorem meanSq_nonneg (k : ℕ) (z : ℕ → ℝ) : 0 ≤ meanSq k z := by
  rw [meanSq_eq]
  exact div_nonneg (sum_nonneg fun i _ => sq_nonneg _) (Nat.cast_nonneg k)

theorem psdRot_nonneg (pre post : Rot) (m n : ℕ) (dx : ℝ) (hdx : dx ≠ 0) (h w : ℕ → ℕ → ℝ) (i j : ℕ) :
    0 ≤ psdRot pre post Real.cos Real.sin (2 * Real.pi) m n dx h w i j := by
  simp only [psdRot, dftPow_eq, psdCoef_eq _ _ hdx]
  apply div_nonneg (sq_nonneg _)
  apply div_nonneg _ (sq_nonneg _)
  rw [winS2_eq]
  exact sum_nonneg fun i _ => sum_nonneg fun j _ => sq_nonneg _

/-- the radial frequency grid handed to `bandlimited_rms`: `r[i,j] = hypot(fx_j, fy_i)` on the returned axes -/
noncomputable def rgrid (m n : ℕ) (dx : ℝ) (i j : ℕ) : ℝ :=
  Real.sqrt (axisFreq m dx i ^ 2 + axisFreq n dx j ^ 2)

theorem axisFreq_centre (n : ℕ) (dx : ℝ) : axisFreq n dx (n / 2) = 0 := by
  have : axisFreqNum (n : ℤ) ((n / 2 : ℕ) : ℤ) = 0 := by unfold axisFreqNum; omega
  simp only [axisFreq, this, ofInt_eq, Int.cast_zero, zero_div]

theorem pyPrev_centre (n : ℕ) (hn : 2 ≤ n) : pyPrev n (n / 2) = n / 2 - 1 := by
  unfold pyPrev
  have h : (((n / 2 : ℕ) : ℤ) - 1) % (n : ℤ) = ((n / 2 : ℕ) : ℤ) - 1 := Int.emod_eq_of_lt (by omega) (by omega)
  rw [h]; omega

theorem axisFreq_prev (n : ℕ) (hn : 2 ≤ n) (dx : ℝ) : axisFreq n dx (n / 2 - 1) = -(1 / (n * dx)) := by
  have : axisFreqNum (n : ℤ) ((n / 2 - 1 : ℕ) : ℤ) = -1 := by unfold axisFreqNum; omega
  simp only [axisFreq, this, ofInt_eq, Int.cast_neg, Int.cast_one, Int.cast_natCast]
  ring

theorem steps_per_axis (m n : ℕ) (hm : 2 ≤ m) (hn : 2 ≤ n) (dx : ℝ) (hdx : 0 < dx) :
    stepAxis0 (fun x => |x|) m n (rgrid m n dx) = 1 / (m * dx) ∧
    stepAxis1 (fun x => |x|) m n (rgrid m n dx) = 1 / (n * dx) := by
  have hm' : (0 : ℝ) < m := Nat.cast_pos.mpr (by omega)
  have hn' : (0 : ℝ) < n := Nat.cast_pos.mpr (by omega)
  have pm : (0 : ℝ) ≤ 1 / (m * dx) := by positivity
  have pn : (0 : ℝ) ≤ 1 / (n * dx) := by positivity
  constructor
  · simp only [stepAxis0, rgrid, pyPrev_centre m hm, axisFreq_centre, axisFreq_prev m hm]
    norm_num
    rw [Real.sqrt_sq (by positivity), abs_of_nonneg (by positivity)]
  · simp only [stepAxis1, rgrid, pyPrev_centre n hn, axisFreq_centre, axisFreq_prev n hn]
    norm_num
    rw [Real.sqrt_sq (by positivity), abs_of_nonneg (by positivity)]

end C13L
