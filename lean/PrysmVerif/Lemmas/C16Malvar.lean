import PrysmVerif.Model.C16
import Mathlib.Tactic.Ring
import Mathlib.Tactic.Linarith
import Mathlib.Tactic.NormNum
import Mathlib.Data.Rat.Defs
/-!
# C16 — Malvar demosaicking of a mosaic of ONE colour (helper lemmas over the hand model)

Away from the border (two samples), the 5 × 5 window of `ndimage.convolve` never touches the `reflect`
rule, and a mosaic whose samples depend on the parities of the row and the column only (every mosaic of
a spatially uniform colour is one) is filtered into a combination of its four site values.
-/
set_option linter.unusedTactic false
set_option linter.unreachableTactic false
set_option linter.unusedSimpArgs false
set_option linter.unusedVariables false

namespace C16L
open Model.C16

/-- a mosaic that depends on the parities of the row and of the column only -/
def parityImg (f : ℕ → ℕ → Rat) : ℕ → ℕ → Rat := fun R C => f (R % 2) (C % 2)

/-- two samples away from the border the window of a 5-tap filter stays inside the array -/
theorem reflectIdx_interior (n R a : ℕ) (h2 : 2 ≤ R) (hR : R + 2 < n) (ha : a < 5) :
    reflectIdx n ((R : ℤ) + 2 - a) = R + 2 - a := by
  unfold reflectIdx; split_ifs <;> omega

theorem sumTo_congr {K : Type} [Num K] (n : ℕ) (f g : ℕ → K) (h : ∀ i < n, f i = g i) :
    Num.sumTo n f = Num.sumTo n g := by
  induction n with
  | zero => rfl
  | succ n ih =>
    simp only [Num.sumTo]
    rw [ih (fun i hi => h i (by omega)), h n (by omega)]

/-- interior samples of a filtered parity mosaic: the kernel weights collected by parity -/
theorem convolve5_parity (m n : ℕ) (f : ℕ → ℕ → Rat) (k : List (List Rat)) (div : Rat) (R C : ℕ)
    (hR2 : 2 ≤ R) (hRm : R + 2 < m) (hC2 : 2 ≤ C) (hCn : C + 2 < n) :
    convolve5 m n (parityImg f) k div R C =
      Num.sumTo 5 fun a => Num.sumTo 5 fun b => kernelAt k a b / div * f ((R + a) % 2) ((C + b) % 2) := by
  unfold convolve5
  refine sumTo_congr 5 _ _ fun a ha => sumTo_congr 5 _ _ fun b hb => ?_
  rw [reflectIdx_interior m R a hR2 hRm ha, reflectIdx_interior n C b hC2 hCn hb]
  have e1 : (R + 2 - a) % 2 = (R + a) % 2 := by omega
  have e2 : (C + 2 - b) % 2 = (C + b) % 2 := by omega
  simp only [parityImg, e1, e2]

/-- the filtered image two samples (or more) inside the border, without the `reflect` rule: sample `(R+2, C+2)` of an
`m × n` image with `R + 4 < m`, `C + 4 < n` -/
theorem convolve5_interior (m n : ℕ) (img : ℕ → ℕ → Rat) (k : List (List Rat)) (div : Rat) (R C : ℕ)
    (hRm : R + 4 < m) (hCn : C + 4 < n) :
    convolve5 m n img k div (R + 2) (C + 2) =
      Num.sumTo 5 fun a => Num.sumTo 5 fun b => kernelAt k a b / div * img (R + (4 - a)) (C + (4 - b)) := by
  unfold convolve5
  refine sumTo_congr 5 _ _ fun a ha => sumTo_congr 5 _ _ fun b hb => ?_
  have e1 : reflectIdx m (((R + 2 : ℕ) : ℤ) + 2 - a) = R + (4 - a) := by unfold reflectIdx; split_ifs <;> omega
  have e2 : reflectIdx n (((C + 2 : ℕ) : ℤ) + 2 - b) = C + (4 - b) := by unfold reflectIdx; split_ifs <;> omega
  rw [e1, e2]

end C16L
