import PrysmVerif.Model.C13
import Mathlib.Data.Real.Basic
import Mathlib.Algebra.BigOperators.Ring.Finset
import Mathlib.Tactic.Ring
import Mathlib.Tactic.FieldSimp
/-!
# C13 — the executable model (`Model/C13.lean`, written against `[Num K]`) read over `ℝ`

`C13L.instNumReal` (scoped: active only after `open scoped C13L`) makes `ℝ` a `Num`, so every
definition of `Model.C13` that the driver runs on `Float` is also a function on real numbers; the
lemmas below rewrite the structural-recursion sums of the model into `Finset` sums.
-/
namespace C13L

noncomputable scoped instance (priority := 100) instNumReal : Num ℝ := { ofInt := fun i => (i : ℝ) }

theorem ofInt_eq (i : Int) : (Num.ofInt i : ℝ) = (i : ℝ) := rfl

theorem sumTo_eq (n : Nat) (f : Nat → ℝ) : Num.sumTo n f = ∑ i ∈ Finset.range n, f i := by
  induction n with
  | zero => simp [Num.sumTo, ofInt_eq]
  | succ k ih => rw [Num.sumTo, ih, Finset.sum_range_succ]

theorem npow_eq (x : ℝ) (k : Nat) : Num.npow x k = x ^ k := by
  induction k with
  | zero => simp [Num.npow, ofInt_eq]
  | succ j ih => rw [Num.npow, ih, pow_succ]

theorem ofFrac_eq (p : Int) (q : Nat) : (Num.ofFrac p q : ℝ) = (p : ℝ) / (q : ℝ) := by
  simp [Num.ofFrac, ofInt_eq]

open Model.C13

theorem trapz_eq (n : Nat) (d : ℝ) (y : Nat → ℝ) :
    trapz n d y = ∑ i ∈ Finset.range (n - 1), d * (y (i + 1) + y i) / 2 := by
  unfold trapz
  rw [sumTo_eq]
  simp [ofInt_eq]

theorem psdCoef_eq (S2 dx : ℝ) (h : dx ≠ 0) : psdCoef S2 dx = S2 / dx ^ 2 := by
  simp only [psdCoef, ofInt_eq, Int.cast_one]; field_simp

theorem winS2_eq (m n : Nat) (w : Nat → Nat → ℝ) :
    winS2 m n w = ∑ i ∈ Finset.range m, ∑ j ∈ Finset.range n, w i j ^ 2 := by
  unfold winS2
  rw [sumTo_eq]
  refine Finset.sum_congr rfl fun i _ => ?_
  rw [sumTo_eq]
  refine Finset.sum_congr rfl fun j _ => ?_
  ring

end C13L
