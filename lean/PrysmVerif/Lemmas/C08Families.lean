import PrysmVerif.Lemmas.C08Sweep
/-! # C08 — the families as `Rec`s evaluate to the C07 models; table look-up; NumPy broadcasting lemmas -/
namespace C08L
open Model.C08 Model.C07
set_option linter.unusedSimpArgs false

section families
variable {K : Type} [Num K]

theorem jacobiRec_state (a b x : K) (n : Nat) : (jacobiRec a b x).stateAt n = jacPair a b x n := by
  induction n with
  | zero => rfl
  | succ n ih => rw [Rec.stateAt, ih]; rfl
theorem jacobiRec_eval (a b x : K) (n : Nat) : (jacobiRec a b x).eval n = jacobi n a b x := by
  unfold Rec.eval; rw [jacobiRec_state]; rfl

theorem heRec_state (x : K) (n : Nat) : (heRec x).stateAt n = hePair x n := by
  induction n with
  | zero => rfl
  | succ n ih => rw [Rec.stateAt, ih]; rfl
theorem heRec_eval (x : K) (n : Nat) : (heRec x).eval n = hermiteHe n x := by
  unfold Rec.eval; rw [heRec_state]; rfl

theorem hRec_state (x : K) (n : Nat) : (hRec x).stateAt n = hPair x n := by
  induction n with
  | zero => rfl
  | succ n ih => rw [Rec.stateAt, ih]; rfl
theorem hRec_eval (x : K) (n : Nat) : (hRec x).eval n = hermiteH n x := by
  unfold Rec.eval; rw [hRec_state]; rfl

theorem lagRec_state (a x : K) (n : Nat) : (lagRec a x).stateAt n = lagPair a x n := by
  induction n with
  | zero => rfl
  | succ n ih => rw [Rec.stateAt, ih]; rfl
theorem lagRec_eval (a x : K) (n : Nat) : (lagRec a x).eval n = laguerre n a x := by
  unfold Rec.eval; rw [lagRec_state]; rfl

theorem dickRec_state (p0 a x : K) (n : Nat) : (dickRec p0 a x).stateAt n = dickPair p0 a x n := by
  induction n with
  | zero => rfl
  | succ n ih => rw [Rec.stateAt, ih]; rfl
theorem dickRec_eval1 (a x : K) (n : Nat) : (dickRec (nat 2) a x).eval n = dickson1 n a x := by
  unfold Rec.eval; rw [dickRec_state]; rfl
theorem dickRec_eval2 (a x : K) (n : Nat) : (dickRec (nat 1) a x).eval n = dickson2 n a x := by
  unfold Rec.eval; rw [dickRec_state]; rfl

theorem qbfsRec_state (sqrt : K → K) (x : K) (n : Nat) :
    (qbfsRec sqrt x).stateAt n = (n, qbfsPQ sqrt (x * x) n) := by
  induction n with
  | zero => rfl
  | succ n ih => rw [Rec.stateAt, ih]; rfl
theorem qbfsRec_eval (sqrt : K → K) (x : K) (n : Nat) : (qbfsRec sqrt x).eval n = qbfs sqrt n x := by
  unfold Rec.eval; rw [qbfsRec_state]; rfl

/-- the single-order derivative functions as the code writes them -/
def jacobiDer (n : Nat) (a b x : K) : K :=
  match n with
  | 0 => nat 0
  | k+1 => jacobi k (a + nat 1) (b + nat 1) x * (Num.ofFrac 1 2 * (nat (k+1) + a + b + nat 1))
def hermiteHeDer (n : Nat) (x : K) : K :=
  match n with
  | 0 => nat 0 * nat 0
  | k+1 => nat (k+1) * hermiteHe k x
def hermiteHDer (n : Nat) (x : K) : K :=
  match n with
  | 0 => nat 2 * nat 0 * nat 0
  | k+1 => nat 2 * nat (k+1) * hermiteH k x

theorem jacobiDerRec_state (a b x : K) (n : Nat) :
    (jacobiDerRec a b x).stateAt (n+1) = jacPair (a + nat 1) (b + nat 1) x n := by
  induction n with
  | zero => rfl
  | succ n ih => rw [Rec.stateAt, ih]; rfl
theorem jacobiDerRec_eval (a b x : K) (n : Nat) : (jacobiDerRec a b x).eval n = jacobiDer n a b x := by
  cases n with
  | zero => rfl
  | succ k => unfold Rec.eval; rw [jacobiDerRec_state]; rfl

theorem heDerRec_state (x : K) (n : Nat) : (heDerRec x).stateAt (n+1) = hePair x n := by
  induction n with
  | zero => rfl
  | succ n ih => rw [Rec.stateAt, ih]; rfl
theorem heDerRec_eval (x : K) (n : Nat) : (heDerRec x).eval n = hermiteHeDer n x := by
  cases n with
  | zero => rfl
  | succ k => unfold Rec.eval; rw [heDerRec_state]; rfl

theorem hDerRec_state (x : K) (n : Nat) : (hDerRec x).stateAt (n+1) = hPair x n := by
  induction n with
  | zero => rfl
  | succ n ih => rw [Rec.stateAt, ih]; rfl
theorem hDerRec_eval (x : K) (n : Nat) : (hDerRec x).eval n = hermiteHDer n x := by
  cases n with
  | zero => rfl
  | succ k => unfold Rec.eval; rw [hDerRec_state]; rfl
end families

/-! ## tables -/
section tables
variable {S K : Type}

theorem le_foldl_max (pairs : List (Nat × Nat)) (k : Nat) (acc : Nat) :
    acc ≤ pairs.foldl (fun acc p => if p.2 = k then max acc p.1 else acc) acc := by
  induction pairs generalizing acc with
  | nil => simp
  | cons p ps ih =>
    simp only [List.foldl_cons]
    split
    · exact Nat.le_trans (Nat.le_max_left _ _) (ih _)
    · exact ih _

theorem le_maxFor (pairs : List (Nat × Nat)) (p : Nat × Nat) (hp : p ∈ pairs) : p.1 ≤ maxFor pairs p.2 := by
  unfold maxFor
  generalize 0 = acc
  induction pairs generalizing acc with
  | nil => simp at hp
  | cons q qs ih =>
    simp only [List.foldl_cons]
    rcases List.mem_cons.mp hp with rfl | h
    · simp only [if_true]
      exact Nat.le_trans (Nat.le_max_right _ _) (le_foldl_max _ _ _)
    · exact ih h _

theorem mapM_option_of_forall {α β : Type} (f : α → Option β) (g : α → β) (l : List α)
    (h : ∀ p ∈ l, f p = some (g p)) : l.mapM f = some (l.map g) := by
  induction l with
  | nil => rfl
  | cons a l ih =>
    have ha := h a (by simp)
    have hl := ih (fun p hp => h p (by simp [hp]))
    simp [List.mapM_cons, ha, hl]

/-- **table look-up equals one-at-a-time evaluation**: for any list of `(j, k)` pairs — any order, repeats
    allowed — `tableSeq` returns `(fam k).eval j` for each pair, in the order requested -/
theorem table_lookup_eq_map (fam : Nat → Rec S K) (pairs : List (Nat × Nat)) :
    tableSeq fam pairs = some (pairs.map fun p => (fam p.2).eval p.1) := by
  unfold tableSeq
  apply mapM_option_of_forall
  intro p hp
  have hs := sweep_eq_map (fam p.2) (List.range (maxFor pairs p.2 + 1)) (by simp) List.pairwise_lt_range
  rw [hs]
  have hle := le_maxFor pairs p hp
  simp only [List.getElem?_map]
  rw [List.getElem?_range (by omega)]
  rfl
end tables

/-! ## broadcasting -/
theorem zip_ones_mapM (S : List Nat) :
    (List.zip S (List.replicate S.length 1)).mapM
      (fun (pq : Nat × Nat) => if pq.1 = pq.2 then some pq.1 else if pq.1 = 1 then some pq.2 else if pq.2 = 1 then some pq.1 else none)
      = some S := by
  induction S with
  | nil => rfl
  | cons a S ih =>
    simp only [List.length_cons, List.replicate_succ, List.zip_cons_cons, List.mapM_cons, ih]
    by_cases h : a = 1 <;> simp [h]

/-- constants of shape `(N, 1, …, 1)` (one `1` per coordinate axis) broadcast against the `(N, *S)` mode stack
    to shape `(N, *S)`, for every `N` and every coordinate shape `S` -/
theorem bcShape_good (N : Nat) (S : List Nat) : bcShape (N :: S) (goodCsShape N S.length) = some (N :: S) := by
  unfold bcShape goodCsShape
  simp only [List.length_cons, List.length_replicate, Nat.max_self, Nat.sub_self, List.replicate_zero, List.nil_append,
    List.zip_cons_cons, List.mapM_cons, if_true]
  have := zip_ones_mapM S
  simp [this]

theorem zip_ones_src (idx : List Nat) :
    (List.zip (List.replicate idx.length 1) idx).map (fun (di : Nat × Nat) => if di.1 = 1 then 0 else di.2)
      = List.replicate idx.length 0 := by
  induction idx with
  | nil => rfl
  | cons a l ih => simp [List.replicate_succ, ih]

/-- … and output element `[k, idx…]` is fed by constant number `k` (row `k` of the constants), whatever `idx` -/
theorem bcSrc_good (N k : Nat) (idx : List Nat) :
    bcSrc (goodCsShape N idx.length) (k :: idx) = (if N = 1 then 0 else k) :: List.replicate idx.length 0 := by
  unfold bcSrc goodCsShape
  simp only [List.length_cons, List.length_replicate, Nat.sub_self, List.drop_zero, List.zip_cons_cons, List.map_cons]
  rw [zip_ones_src]

/-- the pinned `(N, 1)` constants against a 2-D coordinate array `(A, B)`: NumPy raises unless `A ∈ {1, N}` or `N = 1` -/
theorem pinned_shape_raises (N A B : Nat) (hN : N ≠ 1) (hA : A ≠ 1) (hAN : A ≠ N) :
    bcShape [N, A, B] [N, 1] = none := by
  have h1 : ¬ (1 = N) := fun h => hN h.symm
  by_cases hB : B = 1 <;> simp [bcShape, List.mapM_cons, h1, hN, hA, hAN, hB]

/-- … and when `A = N` it silently scales mode `k`, row `i` by constant `i` instead of constant `k` -/
theorem pinned_shape_aliases (N B k i j : Nat) (hN : N ≠ 1) :
    bcShape [N, N, B] [N, 1] = some [N, N, B] ∧ bcSrc [N, 1] [k, i, j] = [i, 0] := by
  have h1 : ¬ (1 = N) := fun h => hN h.symm
  constructor
  · by_cases hB : B = 1 <;> simp [bcShape, List.mapM_cons, h1, hN, hB]
  · simp [bcSrc, hN]

/-- … and a 0-D coordinate gives an `(N, N)` result instead of `(N,)` -/
theorem pinned_shape_0d (N : Nat) (hN : N ≠ 1) : bcShape [N] [N, 1] = some [N, N] := by
  have h1 : ¬ (1 = N) := fun h => hN h.symm
  simp [bcShape, List.mapM_cons, h1, hN]

/-- the pinned shape is right exactly for 1-D coordinates -/
theorem pinned_shape_1d (N A k i : Nat) :
    bcShape [N, A] [N, 1] = some [N, A] ∧ bcSrc [N, 1] [k, i] = [if N = 1 then 0 else k, 0] := by
  constructor
  · by_cases hA : A = 1 <;> simp [bcShape, List.mapM_cons, hA]
  · simp [bcSrc]

end C08L
