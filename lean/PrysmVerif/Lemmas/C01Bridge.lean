import PrysmVerif.Model.C01
import PrysmVerif.Lemmas.C01Char
/-!
# C01/C02 — bridge from the executable model (`Num`, `Num.sumTo`, `Array`) to Mathlib (`Field`, `∑`, functions)

The `Num` instance of a field is scoped to `namespace C01` (no clash with other properties' files).
-/
set_option linter.unusedSectionVars false

namespace C01
open Finset Model.C01

/-- every field is a `Num` (the same model definitions are then statements about the field) -/
scoped instance (priority := 100) numOfField {K : Type} [Field K] : Num K :=
  { toAdd := inferInstance, toSub := inferInstance, toMul := inferInstance, toDiv := inferInstance,
    toNeg := inferInstance, ofInt := fun i => (i : K) }

variable {R K : Type} [Field R] [CharZero R] [Field K] [CharZero K]

@[simp] theorem ofInt_eq (i : Int) : (Num.ofInt i : K) = (i : K) := rfl

theorem sumTo_eq (n : Nat) (f : Nat → K) : Num.sumTo n f = ∑ i ∈ range n, f i := by
  induction n with
  | zero => simp [Num.sumTo]
  | succ n ih => rw [Num.sumTo, ih, Finset.sum_range_succ]

/-! ## arrays -/

theorem rd_tab (n : Nat) (f : Nat → K) (i : Nat) : rd (tab n f) i = if i < n then f i else 0 := by
  unfold rd tab
  by_cases h : i < n
  · simp [h, Array.getD]
  · simp [h, Array.getD]

theorem rd_tab_lt {n : Nat} (f : Nat → K) {i : Nat} (h : i < n) : rd (tab n f) i = f i := by
  rw [rd_tab, if_pos h]

theorem rd2_tab2 (m n : Nat) (f : Nat → Nat → K) (j i : Nat) :
    rd2 (tab2 m n f) j i = if j < m ∧ i < n then f j i else 0 := by
  unfold rd2 tab2
  have hrow : (Array.ofFn (n := m) fun j => tab n (f j.val)).getD j #[] = if j < m then tab n (f j) else #[] := by
    by_cases h : j < m <;> simp [h, Array.getD]
  rw [hrow]
  by_cases h : j < m
  · simp only [h, if_true, true_and]; exact rd_tab n (f j) i
  · simp [h, rd, Array.getD]

theorem rd2_tab2_lt {m n : Nat} (f : Nat → Nat → K) {j i : Nat} (hj : j < m) (hi : i < n) :
    rd2 (tab2 m n f) j i = f j i := by
  rw [rd2_tab2, if_pos ⟨hj, hi⟩]

/-- a sum over `range n` only sees the first `n` entries of a tabulated array -/
theorem sum_rd_tab (n : Nat) (f : Nat → K) (F : Nat → K → K) :
    ∑ t ∈ range n, F t (rd (tab n f) t) = ∑ t ∈ range n, F t (f t) :=
  Finset.sum_congr rfl fun t ht => by rw [rd_tab_lt f (mem_range.1 ht)]

/-! ## grids -/

/-- `fftrange(n)[j]` in the field: the integer `j - n/2` -/
def xz (n j : Nat) : ℤ := (j : ℤ) - (n : ℤ) / 2

theorem xc_eq (n j : Nat) : (xc n j : R) = ((xz n j : ℤ) : R) := rfl

theorem alphaOf_eq (n : Nat) (Q : R) : alphaOf n Q = 1 / ((n : R) * Q) := by
  simp [alphaOf]

end C01
