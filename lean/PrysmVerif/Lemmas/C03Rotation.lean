import PrysmVerif.Lemmas.C03Fourier
import Mathlib.Tactic.LinearCombination
/-! # C03 — `fftshift ∘ fft ∘ ifftshift` is the centred DFT (index rotations by `N//2`, every length) -/
open C03Lemmas
open scoped C01
namespace C03Lemmas
open Model.C03
variable {R V : Type} [Field R] [Field V]

theorem rot_mod (N c i : Nat) (hi : i < N) (hc : c ≤ N) :
    (i + c) % N = if i + c < N then i + c else i + c - N := by
  split
  · rename_i h; exact Nat.mod_eq_of_lt h
  · rename_i h
    rw [Nat.mod_eq_sub_mod (by omega), Nat.mod_eq_of_lt (by omega)]

/-- a sum over a full period is invariant under rotation of the index -/
theorem sum_rot (N c : Nat) (hc : c ≤ N) (T : Nat → V) :
    ∑ i ∈ Finset.range N, T ((i + c) % N) = ∑ i ∈ Finset.range N, T i := by
  rcases Nat.eq_zero_or_pos N with h0 | hN
  · subst h0; simp
  refine Finset.sum_nbij' (fun i => (i + c) % N) (fun j => (j + (N - c)) % N) ?_ ?_ ?_ ?_ ?_
  · intro i _; exact Finset.mem_range.mpr (Nat.mod_lt _ hN)
  · intro j _; exact Finset.mem_range.mpr (Nat.mod_lt _ hN)
  · intro i hi
    have hi := Finset.mem_range.mp hi
    rw [rot_mod N c i hi hc]
    split
    · rename_i h
      rw [rot_mod N (N - c) (i + c) h (by omega)]
      split <;> omega
    · rename_i h
      rw [rot_mod N (N - c) (i + c - N) (by omega) (by omega)]
      split <;> omega
  · intro j hj
    have hj := Finset.mem_range.mp hj
    rw [rot_mod N (N - c) j hj (by omega)]
    split
    · rename_i h
      rw [rot_mod N c (j + (N - c)) h hc]
      split <;> omega
    · rename_i h
      rw [rot_mod N c (j + (N - c) - N) (by omega) hc]
      split <;> omega
  · intro i _; rfl

/-- `fftshift(fft(ifftshift(x)))` is the centred DFT: the two index rotations by `N//2` turn the plain DFT sum into the
sum over FFT-aligned coordinates, for every length (odd or even), using only that `e` is 1 on the integers -/
theorem fftRoute1_eq_cdft1 (e : R → V) (he : ∀ a b, e (a + b) = e a * e b) (hint : ∀ z : ℤ, e (z : R) = 1)
    (N : Nat) (x : Nat → V) (l : Nat) (hl : l < N) [CharZero R] :
    fftRoute1 e N x l = cdft1 e N x l := by
  have hN : 0 < N := by omega
  have hNR : (N : R) ≠ 0 := by exact_mod_cast hN.ne'
  simp only [fftRoute1, rawDft1, cdft1, sumTo_eq_sum, ofInt_eq, Int.cast_natCast]
  rw [← sum_rot N (N / 2) (Nat.div_le_self N 2) (fun i => x i * e (coord N i * coord N l / (N : R)))]
  refine Finset.sum_congr rfl fun i hi => ?_
  have hi := Finset.mem_range.mp hi
  congr 1
  -- the two exponents differ by an integer
  have hc : N / 2 ≤ N := Nat.div_le_self N 2
  generalize hcd : N / 2 = c at hc ⊢
  have h1 := Nat.mod_add_div (i + c) N
  have h2 := Nat.mod_add_div (l + (N - c)) N
  have h3 : (N - c) + c = N := by omega
  generalize (i + c) % N = i'' at h1 ⊢
  generalize (l + (N - c)) % N = k' at h2 ⊢
  generalize (i + c) / N = a at h1
  generalize (l + (N - c)) / N = b at h2
  generalize N - c = d at h2 h3
  have h1R : (i'' : R) = (i : R) + (c : R) - (N : R) * (a : R) := by
    have : ((i'' + N * a : ℕ) : R) = ((i + c : ℕ) : R) := by rw [h1]
    push_cast at this; linear_combination this
  have h3R : (d : R) = (N : R) - (c : R) := by
    have : ((d + c : ℕ) : R) = (N : R) := by rw [h3]
    push_cast at this; linear_combination this
  have h2R : (k' : R) = (l : R) - (c : R) + (N : R) * (1 - (b : R)) := by
    have : ((k' + N * b : ℕ) : R) = ((l + d : ℕ) : R) := by rw [h2]
    push_cast at this; linear_combination this + h3R
  have hz : (i : R) * (k' : R) / (N : R)
      = coord N i'' * coord N l / (N : R)
        + ((((i : ℤ) * (1 - (b : ℤ)) + (a : ℤ) * ((l : ℤ) - (c : ℤ)) : ℤ)) : R) := by
    rw [coord_eq, coord_eq, hcd, h1R, h2R]
    push_cast
    field_simp
    ring
  rw [hz, he, hint, mul_one]
end C03Lemmas
