import PrysmVerif.Model.C09
import Mathlib.Tactic.Ring
import Mathlib.Tactic.FieldSimp
import Mathlib.Tactic.LinearCombination
import Mathlib.Algebra.Field.Basic
import Mathlib.Algebra.Ring.Hom.Defs
/-!
# C09 / C10 — proof-side view of the executable models

`Num R` for any commutative ring with a `Div` (a field, or a polynomial ring over a field): the model
definitions, which are written against `Num`, are then definitions over `R` and `ring`, `field_simp`
apply to them.  The instance is scoped to `C10L` (no clash with other properties' lemma files).

Contents: simp bridge (`ofInt`, `ofFrac`, `npow`, `hd`, `nth`), the general Clenshaw identity, the two
changes of basis, and transport of the sweeps along ring homomorphisms.
-/
set_option linter.unusedSectionVars false

namespace C10L
open Model.C10 Model.C09

@[reducible] def ringNum {R : Type} [CommRing R] [Div R] : Num R := { ofInt := fun i => (i : R) }
scoped instance (priority := 100) {R : Type} [CommRing R] [Div R] : Num R := ringNum

section Ring
variable {R : Type} [CommRing R] [Div R]

@[simp] theorem ofInt_eq (i : Int) : (Num.ofInt i : R) = (i : R) := rfl
@[simp] theorem npow_eq (x : R) (n : Nat) : Num.npow x n = x ^ n := by
  induction n with
  | zero => simp [Num.npow]
  | succ k ih => simp [Num.npow, ih, pow_succ]
@[simp] theorem hd_nil : hd ([] : List R) = 0 := by simp [hd]
@[simp] theorem hd_cons (a : R) (l : List R) : hd (a :: l) = a := rfl
@[simp] theorem nth_nil (i : Nat) : nth ([] : List R) i = 0 := by simp [nth]
@[simp] theorem nth_zero (a : R) (l : List R) : nth (a :: l) 0 = a := rfl
@[simp] theorem nth_succ (a : R) (l : List R) (i : Nat) : nth (a :: l) (i+1) = nth l i := rfl
theorem nth_zero_eq_hd (l : List R) : nth l 0 = hd l := by cases l <;> simp
theorem nth_one_eq (l : List R) : nth l 1 = hd l.tail := by
  cases l with
  | nil => simp
  | cons a t => simp [nth_zero_eq_hd]

theorem hd_map {S : Type} [CommRing S] [Div S] (φ : R → S) (h0 : φ 0 = 0) (l : List R) :
    hd (l.map φ) = φ (hd l) := by
  cases l <;> simp [h0]
theorem nth_map {S : Type} [CommRing S] [Div S] (φ : R → S) (h0 : φ 0 = 0) (l : List R) (i : Nat) :
    nth (l.map φ) i = φ (nth l i) := by
  induction l generalizing i with
  | nil => simp [h0]
  | cons a t ih => cases i <;> simp [ih]

theorem p_zero (G : Fam R) (x : R) : G.p x 0 = G.p0 := rfl
theorem p_one (G : Fam R) (x : R) : G.p x 1 = (G.a 0 * x + G.b 0) * G.p0 + G.e 0 := rfl
theorem p_succ_succ (G : Fam R) (x : R) (n : Nat) :
    G.p x (n+2) = (G.a (n+1) * x + G.b (n+1)) * G.p x (n+1) - G.c (n+1) * G.p x n + G.e (n+1) := rfl

/-- invariant of the downward sweep on the suffix that starts at order `k+1` -/
theorem clen_inv (G : Fam R) (x : R) (l : List R) : ∀ k,
    wsum (G.p x) (k+1) l =
      hd (alphas G x (k+1) l) * G.p x (k+1) - G.c (k+1) * hd (alphas G x (k+1) l).tail * G.p x k
        + esum G (k+1) (alphas G x (k+1) l).tail := by
  induction l with
  | nil => intro k; simp [wsum, alphas, esum]
  | cons s rest ih =>
    intro k
    have h := ih (k+1)
    simp only [wsum, alphas, List.tail_cons, hd_cons]
    rw [h, p_succ_succ]
    cases hr : alphas G x (k+2) rest with
    | nil => simp [esum]
    | cons r0 rt => simp only [esum, hd_cons, List.tail_cons]; ring

/-- **Clenshaw, general form.**  For every three-term family (arbitrary `p_0`, arbitrary constants `e_n`
added to the recurrence), every point and every coefficient list (any length, 0 and 1 included):
`α_0 p_0 + Σ_n e_n α_{n+1} = Σ_n s_n p_n(x)`. -/
theorem clenshaw_general (G : Fam R) (x : R) (l : List R) :
    clenshawVal G (alphas G x 0 l) = wsum (G.p x) 0 l := by
  cases l with
  | nil => simp [alphas, clenshawVal, wsum]
  | cons s rest =>
    simp only [alphas, clenshawVal, wsum]
    rw [clen_inv G x rest 0, p_zero, p_one]
    cases hr : alphas G x 1 rest with
    | nil => simp [esum]
    | cons r0 rt => simp only [esum, hd_cons, List.tail_cons]; ring

theorem esum_zero (G : Fam R) (he : ∀ n, G.e n = 0) (l : List R) : ∀ k, esum G k l = 0 := by
  induction l with
  | nil => intro k; simp [esum]
  | cons t rest ih => intro k; simp [esum, he, ih]

theorem alphas_length (G : Fam R) (x : R) (l : List R) : ∀ k, (alphas G x k l).length = l.length := by
  induction l with
  | nil => intro k; simp [alphas]
  | cons s rest ih => intro k; simp [alphas, ih]

theorem wsum_congr (p q : Nat → R) (h : ∀ n, p n = q n) (l : List R) : ∀ k, wsum p k l = wsum q k l := by
  induction l with
  | nil => intro k; rfl
  | cons s rest ih => intro k; simp [wsum, h, ih]

/-! ### transport along a ring homomorphism (used with `Polynomial.eval x₀`) -/
section Hom
variable {S : Type} [CommRing S] [Div S] (φ : R →+* S)

def Fam.mapHom (G : Fam R) : Fam S where
  a n := φ (G.a n)
  b n := φ (G.b n)
  c n := φ (G.c n)
  e n := φ (G.e n)
  p0 := φ G.p0

@[simp] theorem mapHom_a (G : Fam R) (n : Nat) : (Fam.mapHom φ G).a n = φ (G.a n) := rfl
@[simp] theorem mapHom_b (G : Fam R) (n : Nat) : (Fam.mapHom φ G).b n = φ (G.b n) := rfl
@[simp] theorem mapHom_c (G : Fam R) (n : Nat) : (Fam.mapHom φ G).c n = φ (G.c n) := rfl
@[simp] theorem mapHom_e (G : Fam R) (n : Nat) : (Fam.mapHom φ G).e n = φ (G.e n) := rfl
@[simp] theorem mapHom_p0 (G : Fam R) : (Fam.mapHom φ G).p0 = φ G.p0 := rfl

theorem alphas_map (G : Fam R) (x : R) (l : List R) : ∀ k,
    alphas (Fam.mapHom φ G) (φ x) k (l.map φ) = (alphas G x k l).map φ := by
  induction l with
  | nil => intro k; simp [alphas]
  | cons s rest ih =>
    intro k
    simp only [List.map_cons, alphas]
    rw [ih, hd_map φ (map_zero φ), ← List.map_tail, hd_map φ (map_zero φ)]
    simp

theorem derRow_map (G : Fam R) (x : R) (j : Nat) (l : List R) : ∀ k,
    derRow (Fam.mapHom φ G) (φ x) j k (l.map φ) = (derRow G x j k l).map φ := by
  induction l with
  | nil => intro k; simp [derRow]
  | cons s rest ih =>
    intro k
    simp only [List.map_cons, derRow]
    rw [ih, hd_map φ (map_zero φ), hd_map φ (map_zero φ), ← List.map_tail, hd_map φ (map_zero φ)]
    simp

theorem derTable_map (G : Fam R) (x : R) (s : List R) (j : Nat) :
    derTable (Fam.mapHom φ G) (φ x) (s.map φ) j = (derTable G x s j).map φ := by
  induction j with
  | zero => simp [derTable, alphas_map]
  | succ k ih => rw [derTable, ih, derRow_map, derTable]

theorem pair_map (G : Fam R) (x : R) (n : Nat) :
    (Fam.mapHom φ G).pair (φ x) n = (φ (G.pair x n).1, φ (G.pair x n).2) := by
  induction n with
  | zero => simp [Fam.pair]
  | succ k ih => simp [Fam.pair, ih]

theorem p_map (G : Fam R) (x : R) (n : Nat) : (Fam.mapHom φ G).p (φ x) n = φ (G.p x n) := by
  simp [Fam.p, pair_map]

theorem wsum_map (q : Nat → R) (l : List R) : ∀ k,
    wsum (fun n => φ (q n)) k (l.map φ) = φ (wsum q k l) := by
  induction l with
  | nil => intro k; simp [wsum]
  | cons s rest ih => intro k; simp [wsum, ih]

theorem esum_map (G : Fam R) (l : List R) : ∀ k,
    esum (Fam.mapHom φ G) k (l.map φ) = φ (esum G k l) := by
  induction l with
  | nil => intro k; simp [esum]
  | cons s rest ih => intro k; simp [esum, ih]

theorem clenshawVal_map (G : Fam R) (l : List R) :
    clenshawVal (Fam.mapHom φ G) (l.map φ) = φ (clenshawVal G l) := by
  cases l with
  | nil => simp [clenshawVal]
  | cons a t => simp [clenshawVal, esum_map]
end Hom
end Ring

section Field
variable {F : Type} [Field F]

@[simp] theorem ofFrac_eq (p : Int) (q : Nat) : (Num.ofFrac p q : F) = (p : F) / (q : F) := by
  simp [Num.ofFrac]

/-- change of basis, Qbfs shape (`f, g, h`): suffix invariant -/
theorem cob3_inv (f g h P Q : Nat → F) (hf : ∀ n, f n ≠ 0)
    (hP : ∀ n, P (n+2) = f (n+2) * Q (n+2) + g (n+1) * Q (n+1) + h n * Q n)
    (cs : List F) : ∀ k,
    wsum P (k+2) (cobQbfs f g h (k+2) cs) = wsum Q (k+2) cs
      + (g (k+1) * hd (cobQbfs f g h (k+2) cs) + h (k+1) * hd (cobQbfs f g h (k+2) cs).tail) * Q (k+1)
      + h k * hd (cobQbfs f g h (k+2) cs) * Q k := by
  induction cs with
  | nil => intro k; simp [wsum, cobQbfs]
  | cons c rest ih =>
    intro k
    have := ih (k+1)
    simp only [wsum, cobQbfs, hd_cons, List.tail_cons]
    rw [this, hP k]
    have := hf (k+2)
    field_simp
    ring

/-- **change of basis, three-band.**  If `P_n = f_n Q_n + g_{n-1} Q_{n-1} + h_{n-2} Q_{n-2}` and `b` is the
back-substitution the code performs, then `Σ b_n P_n = Σ c_n Q_n` (every list, every non-vanishing `f`). -/
theorem cob3 (f g h P Q : Nat → F) (hf : ∀ n, f n ≠ 0)
    (hP0 : P 0 = f 0 * Q 0) (hP1 : P 1 = f 1 * Q 1 + g 0 * Q 0)
    (hP : ∀ n, P (n+2) = f (n+2) * Q (n+2) + g (n+1) * Q (n+1) + h n * Q n)
    (cs : List F) :
    wsum P 0 (cobQbfs f g h 0 cs) = wsum Q 0 cs := by
  match cs with
  | [] => simp [wsum, cobQbfs]
  | [c0] =>
    simp only [wsum, cobQbfs, hd_nil, List.tail_nil, hP0]
    have := hf 0
    field_simp; ring
  | c0 :: c1 :: rest =>
    simp only [wsum, cobQbfs, hd_cons, List.tail_cons]
    have := cob3_inv f g h P Q hf hP rest 0
    simp only [Nat.zero_add] at this
    rw [this, hP0, hP1]
    have := hf 0; have := hf 1
    field_simp; ring

theorem cob2_inv (f g P Q : Nat → F) (hf : ∀ n, f n ≠ 0)
    (hP : ∀ n, P (n+1) = f (n+1) * Q (n+1) + g n * Q n) (cs : List F) : ∀ k,
    wsum P (k+1) (cobQ2d f g (k+1) cs) = wsum Q (k+1) cs + g k * hd (cobQ2d f g (k+1) cs) * Q k := by
  induction cs with
  | nil => intro k; simp [wsum, cobQ2d]
  | cons c rest ih =>
    intro k
    have := ih (k+1)
    simp only [wsum, cobQ2d, hd_cons]
    rw [this, hP k]
    have := hf (k+1)
    field_simp
    ring

/-- **change of basis, two-band** (2D-Q): `P_n = f_n Q_n + g_{n-1} Q_{n-1}` ⇒ `Σ d_n P_n = Σ c_n Q_n`. -/
theorem cob2 (f g P Q : Nat → F) (hf : ∀ n, f n ≠ 0)
    (hP0 : P 0 = f 0 * Q 0) (hP : ∀ n, P (n+1) = f (n+1) * Q (n+1) + g n * Q n) (cs : List F) :
    wsum P 0 (cobQ2d f g 0 cs) = wsum Q 0 cs := by
  match cs with
  | [] => simp [wsum, cobQ2d]
  | c0 :: rest =>
    simp only [wsum, cobQ2d]
    rw [cob2_inv f g P Q hf hP rest 0, hP0]
    have := hf 0
    field_simp; ring

/-- the value routine's `Q_n` satisfy the three-band relation -/
theorem qbfsQ_rel (f g h P : Nat → F) (hf : ∀ n, f n ≠ 0) :
    P 0 = f 0 * qbfsQ f g h P 0 ∧ P 1 = f 1 * qbfsQ f g h P 1 + g 0 * qbfsQ f g h P 0 ∧
    ∀ n, P (n+2) = f (n+2) * qbfsQ f g h P (n+2) + g (n+1) * qbfsQ f g h P (n+1) + h n * qbfsQ f g h P n := by
  have h0 := hf 0; have h1 := hf 1
  refine ⟨?_, ?_, ?_⟩
  · simp only [qbfsQ, qbfsQPair]; field_simp
  · simp only [qbfsQ, qbfsQPair]; field_simp; ring
  · intro n
    have h2 := hf (n+2)
    have e : qbfsQ f g h P (n+2) = (P (n+2) - g (n+1) * qbfsQ f g h P (n+1) - h n * qbfsQ f g h P n) / f (n+2) := by
      simp only [qbfsQ, qbfsQPair]
    rw [e]; field_simp; ring

theorem q2dQ_rel (f g P : Nat → F) (hf : ∀ n, f n ≠ 0) :
    P 0 = f 0 * q2dQ f g P 0 ∧ ∀ n, P (n+1) = f (n+1) * q2dQ f g P (n+1) + g n * q2dQ f g P n := by
  refine ⟨?_, ?_⟩
  · have := hf 0; simp only [q2dQ]; field_simp
  · intro n; have := hf (n+1); simp only [q2dQ]; field_simp; ring

end Field
end C10L
