import PrysmVerif.Model.C01
import Mathlib.Data.List.Basic
/-!
# C01 — the executor cache: the value used by a call does not depend on the history

Invariant: every cached entry is what `build` returns for a state that has this key.  If the key determines
everything `build` reads, a hit returns exactly what a miss would have built.
-/
set_option linter.unusedSectionVars false

namespace C01
open Model.C01

variable {V B : Type} [DecidableEq V]

/-- two states with the same key give `build` the same inputs -/
def KeyDeterminesBuild (x : Exec V B) : Prop :=
  ∀ st st' : St V, x.keyFields.map st = x.keyFields.map st' → x.buildReads.map st = x.buildReads.map st'

/-- the generated fact "everything read while building is a key field" implies it -/
theorem keyDeterminesBuild_of_subset (x : Exec V B) (h : ∀ r ∈ x.buildReads, r ∈ x.keyFields) :
    KeyDeterminesBuild x := by
  intro st st' hk
  rw [List.map_eq_map_iff] at hk ⊢
  intro r hr
  exact hk r (h r hr)

def CacheOK (x : Exec V B) (c : Cache V B) : Prop :=
  ∀ k b, (k, b) ∈ c → ∃ st : St V, x.keyFields.map st = k ∧ b = x.build (x.buildReads.map st)

theorem lookup_mem (c : Cache V B) (key : List V) (b : B) (h : lookup c key = some b) : (key, b) ∈ c := by
  induction c with
  | nil => simp [lookup] at h
  | cons hd tl ih =>
    obtain ⟨k, b'⟩ := hd
    unfold lookup at h
    by_cases hk : k = key
    · rw [if_pos hk] at h
      cases h
      rw [hk]; exact List.mem_cons_self
    · rw [if_neg hk] at h
      exact List.mem_cons_of_mem _ (ih h)

theorem callStep_spec (x : Exec V B) (hkd : KeyDeterminesBuild x) (c : Cache V B) (hc : CacheOK x c) (st : St V) :
    (callStep x c st).1 = x.build (x.buildReads.map st) ∧ CacheOK x (callStep x c st).2 := by
  simp only [callStep]
  cases hl : lookup c (x.keyFields.map st) with
  | none =>
    refine ⟨rfl, ?_⟩
    intro k b hmem
    rcases List.mem_cons.1 hmem with h | h
    · cases h; exact ⟨st, rfl, rfl⟩
    · exact hc k b h
  | some b =>
    refine ⟨?_, hc⟩
    obtain ⟨st', hk, hb⟩ := hc _ _ (lookup_mem c _ b hl)
    show b = _
    rw [hb, hkd st' st hk]

theorem runOps_ok (x : Exec V B) (hkd : KeyDeterminesBuild x) (ops : List (Op V)) :
    ∀ c : Cache V B, CacheOK x c → CacheOK x (runOps x c ops) := by
  induction ops with
  | nil => intro c hc; exact hc
  | cons op rest ih =>
    intro c hc
    cases op with
    | call st => exact ih _ (callStep_spec x hkd c hc st).2
    | clear => exact ih [] (fun k b h => by cases h)

/-- history independence: after ANY sequence of calls and `clear()`s, a call uses exactly the basis that a fresh
executor would build for it -/
theorem exec_history_independent (x : Exec V B) (h : ∀ r ∈ x.buildReads, r ∈ x.keyFields)
    (ops : List (Op V)) (st : St V) :
    (callStep x (runOps x [] ops) st).1 = (callStep x [] st).1 := by
  have hkd := keyDeterminesBuild_of_subset x h
  have h0 : CacheOK x ([] : Cache V B) := fun k b hm => by cases hm
  rw [(callStep_spec x hkd _ (runOps_ok x hkd ops [] h0) st).1, (callStep_spec x hkd [] h0 st).1]

end C01
