import PrysmVerif.Lemmas.C01Cache
/-!
# C01 — the executors' dictionaries (several dictionaries, one probe): no `KeyError`, no dependence on the history

Invariant carried through every history of calls (of any entry point) and `clear()`s:
* `Val2OK`: every entry of an indexed dictionary is what the miss path builds for a state with that key;
* `Dom2OK`: a key present in every PROBED dictionary is present in every INDEXED dictionary.
-/
set_option linter.unusedSectionVars false

namespace C01
open Model.C01

variable {V B : Type} [DecidableEq V]

def KeyDet2 (x : Exec2 V B) : Prop :=
  ∀ st st' : St V, x.keyFields.map st = x.keyFields.map st' → x.buildReads.map st = x.buildReads.map st'

theorem keyDet2_of_subset (x : Exec2 V B) (h : ∀ r ∈ x.buildReads, r ∈ x.keyFields) : KeyDet2 x := by
  intro st st' hk
  rw [List.map_eq_map_iff] at hk ⊢
  intro r hr
  exact hk r (h r hr)

def Val2OK (x : Exec2 V B) (s : Dicts V B) : Prop :=
  ∀ d ∈ x.proto.useReads, ∀ k b, lookup (s d) k = some b →
    ∃ st : St V, x.keyFields.map st = k ∧ b = x.build d (x.buildReads.map st)

def Dom2OK (x : Exec2 V B) (s : Dicts V B) : Prop :=
  ∀ k, (∀ p ∈ x.proto.probe, (lookup (s p) k).isSome) → ∀ d ∈ x.proto.useReads, (lookup (s d) k).isSome

theorem lookup_cons_self (c : Cache V B) (k : List V) (b : B) : lookup ((k, b) :: c) k = some b := by
  simp [lookup]

theorem lookup_cons_ne (c : Cache V B) (k k' : List V) (b : B) (h : k ≠ k') : lookup ((k, b) :: c) k' = lookup c k' := by
  simp [lookup, h]

theorem setup2_hit (x : Exec2 V B) (s : Dicts V B) (st : St V)
    (h : (x.proto.probe.all fun p => hasKey (s p) (x.keyFields.map st)) = true) : setup2 x s st = s := by
  unfold setup2; rw [if_pos h]

theorem setup2_miss (x : Exec2 V B) (s : Dicts V B) (st : St V)
    (h : ¬ (x.proto.probe.all fun p => hasKey (s p) (x.keyFields.map st)) = true) (d : String) :
    setup2 x s st d = if d ∈ x.proto.missWrites then (x.keyFields.map st, x.build d (x.buildReads.map st)) :: s d else s d := by
  unfold setup2; rw [if_neg h]

/-- one call: every lookup succeeds with the freshly built value, and the invariant is kept -/
theorem callStep2_spec (x : Exec2 V B) (hwf : x.proto.WF) (hkd : KeyDet2 x) (s : Dicts V B)
    (hv : Val2OK x s) (hd : Dom2OK x s) (st : St V) :
    (callStep2 x s st).1 = x.proto.useReads.map (fun d => some (x.build d (x.buildReads.map st))) ∧
      Val2OK x (callStep2 x s st).2 ∧ Dom2OK x (callStep2 x s st).2 := by
  obtain ⟨_, hsub, _⟩ := hwf
  simp only [callStep2]
  by_cases hit : (x.proto.probe.all fun p => hasKey (s p) (x.keyFields.map st)) = true
  · rw [setup2_hit x s st hit]
    refine ⟨?_, hv, hd⟩
    apply List.map_congr_left
    intro d hdm
    have hall : ∀ p ∈ x.proto.probe, (lookup (s p) (x.keyFields.map st)).isSome := fun p hpm =>
      (List.all_eq_true.1 hit) p hpm
    obtain ⟨b, hb⟩ := Option.isSome_iff_exists.1 (hd _ hall d hdm)
    obtain ⟨st', hk, hbb⟩ := hv d hdm _ b hb
    rw [hb, hbb, hkd st' st hk]
  · refine ⟨?_, ?_, ?_⟩
    · apply List.map_congr_left
      intro d hdm
      rw [setup2_miss x s st hit d, if_pos (hsub d hdm), lookup_cons_self]
    · intro d hdm k b hl
      rw [setup2_miss x s st hit d, if_pos (hsub d hdm)] at hl
      by_cases hk : x.keyFields.map st = k
      · subst hk
        rw [lookup_cons_self] at hl
        exact ⟨st, rfl, (Option.some.inj hl).symm⟩
      · rw [lookup_cons_ne _ _ _ _ hk] at hl
        exact hv d hdm k b hl
    · intro k hpr d hdm
      by_cases hk : x.keyFields.map st = k
      · subst hk
        rw [setup2_miss x s st hit d, if_pos (hsub d hdm), lookup_cons_self]; rfl
      · have same : ∀ d', lookup (setup2 x s st d') k = lookup (s d') k := by
          intro d'
          rw [setup2_miss x s st hit d']
          by_cases hm : d' ∈ x.proto.missWrites
          · rw [if_pos hm, lookup_cons_ne _ _ _ _ hk]
          · rw [if_neg hm]
        rw [same d]
        exact hd k (fun p hpm => by rw [← same p]; exact hpr p hpm) d hdm

theorem clear2_spec (x : Exec2 V B) (hwf : x.proto.WF) (s : Dicts V B) (hv : Val2OK x s) (hd : Dom2OK x s) :
    Val2OK x (clear2 x s) ∧ Dom2OK x (clear2 x s) := by
  obtain ⟨_, _, hclr⟩ := hwf
  constructor
  · intro d hdm k b hl
    unfold clear2 at hl
    by_cases hc : d ∈ x.proto.clearResets
    · rw [if_pos hc] at hl; simp [lookup] at hl
    · rw [if_neg hc] at hl; exact hv d hdm k b hl
  · intro k hpr d hdm
    rcases hclr with hno | ⟨q, hq, hqc⟩
    · have hsame : clear2 x s d = s d := by unfold clear2; rw [if_neg (hno d hdm)]
      rw [hsame]
      refine hd k (fun p hpm => ?_) d hdm
      have := hpr p hpm
      unfold clear2 at this
      by_cases hc : p ∈ x.proto.clearResets
      · rw [if_pos hc] at this; simp [lookup] at this
      · rw [if_neg hc] at this; exact this
    · have := hpr q hq
      unfold clear2 at this
      rw [if_pos hqc] at this; simp [lookup] at this

theorem noDicts_ok (x : Exec2 V B) (hwf : x.proto.WF) : Val2OK x noDicts ∧ Dom2OK x noDicts := by
  obtain ⟨hp, _, _⟩ := hwf
  constructor
  · intro d _ k b hl; simp [noDicts, lookup] at hl
  · intro k hpr
    obtain ⟨p, hpm⟩ := List.exists_mem_of_ne_nil _ hp
    have := hpr p hpm
    simp [noDicts, lookup] at this

theorem runOps2_ok (x : Exec2 V B) (hwf : x.proto.WF) (hkd : KeyDet2 x) (ops : List (Op V)) :
    ∀ s : Dicts V B, Val2OK x s ∧ Dom2OK x s → Val2OK x (runOps2 x s ops) ∧ Dom2OK x (runOps2 x s ops) := by
  induction ops with
  | nil => intro s h; exact h
  | cons op rest ih =>
    intro s h
    cases op with
    | call st => exact ih _ (callStep2_spec x hwf hkd s h.1 h.2 st).2
    | clear => exact ih _ (clear2_spec x hwf s h.1 h.2)

/-- after ANY history of calls and `clear()`s on an executor whose dictionaries follow a sound protocol and whose key
contains everything the miss path reads, a call finds every dictionary entry it indexes (no `KeyError`) and each is exactly
what a fresh executor would build -/
theorem exec2_history_independent (x : Exec2 V B) (hwf : x.proto.WF) (h : ∀ r ∈ x.buildReads, r ∈ x.keyFields)
    (ops : List (Op V)) (st : St V) :
    (callStep2 x (runOps2 x noDicts ops) st).1 = x.proto.useReads.map (fun d => some (x.build d (x.buildReads.map st))) ∧
    (callStep2 x (runOps2 x noDicts ops) st).1 = (callStep2 x noDicts st).1 := by
  have hkd := keyDet2_of_subset x h
  have h0 := noDicts_ok x hwf
  have hn := runOps2_ok x hwf hkd ops noDicts h0
  have a := (callStep2_spec x hwf hkd _ hn.1 hn.2 st).1
  have b := (callStep2_spec x hwf hkd _ h0.1 h0.2 st).1
  exact ⟨a, a.trans b.symm⟩

end C01
