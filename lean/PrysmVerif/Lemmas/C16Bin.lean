import PrysmVerif.Model.C16
import Mathlib.Algebra.BigOperators.Ring.Finset
import Mathlib.Algebra.BigOperators.Pi
import Mathlib.Algebra.Field.Basic
import Mathlib.Data.Fintype.BigOperators
import Mathlib.Data.Fintype.Pi
import Mathlib.Tactic.Ring
import Mathlib.Tactic.FieldSimp
/-!
# C16 — binning and tiling of N-D arrays

An array of shape `(s 0 · f 0, …, s (d-1) · f (d-1))` is a function on `In s f = Π a, Fin (s a * f a)`;
binning by the per-axis factors `f` gives a function on `Out s = Π a, Fin (s a)`.  The block bijection
`(i, j) ↦ i·f + j` per axis (`Model.C16.binSrc`) and its inverse `k ↦ (k / f, k % f)`
(`Model.C16.tileSrc` for the quotient) are what `reshape` to `(s0, f0, s1, f1, …)` does to indices.
Everything is for every number of axes `d`, every shape `s` and every factor tuple `f` (all ≥ 0).
-/
set_option linter.unusedSectionVars false
set_option linter.unusedSimpArgs false

namespace C16L
open Finset Model.C16

variable {d : ℕ} (s f : Fin d → ℕ)

abbrev Out := (a : Fin d) → Fin (s a)
abbrev Blk := (a : Fin d) → Fin (f a)
abbrev In := (a : Fin d) → Fin (s a * f a)

theorem binSrc_lt {s f i j : ℕ} (hi : i < s) (hj : j < f) : binSrc f i j < s * f := by
  unfold binSrc
  calc i * f + j < i * f + f := by omega
    _ = (i + 1) * f := by ring
    _ ≤ s * f := Nat.mul_le_mul_right f hi

theorem tileSrc_lt {s f k : ℕ} (hk : k < s * f) : tileSrc f k < s := by
  unfold tileSrc
  rcases Nat.eq_zero_or_pos f with hf | hf
  · subst hf; simp at hk
  · exact Nat.div_lt_of_lt_mul (by rwa [Nat.mul_comm] at hk)

theorem mod_lt_of_lt_mul {s f k : ℕ} (hk : k < s * f) : k % f < f := by
  rcases Nat.eq_zero_or_pos f with hf | hf
  · subst hf; simp at hk
  · exact Nat.mod_lt k hf

/-- source sample of block `i`, offset `j` -/
def join (i : Out s) (j : Blk f) : In s f := fun a => ⟨binSrc (f a) (i a) (j a), binSrc_lt (i a).2 (j a).2⟩

/-- the block that contains sample `k`, and the offset of `k` inside it -/
def blockOf (k : In s f) : Out s := fun a => ⟨tileSrc (f a) (k a), tileSrc_lt (k a).2⟩
def offsetOf (k : In s f) : Blk f := fun a => ⟨(k a) % f a, mod_lt_of_lt_mul (k a).2⟩

/-- the block bijection `Out × Blk ≃ In` -/
def blockEquiv : Out s × Blk f ≃ In s f where
  toFun p := join s f p.1 p.2
  invFun k := (blockOf s f k, offsetOf s f k)
  left_inv p := by
    obtain ⟨i, j⟩ := p
    have hf : ∀ a, 0 < f a := fun a => Nat.pos_of_ne_zero fun h => by have := (j a).2; omega
    ext a
    · simp only [blockOf, join, binSrc, tileSrc]
      rw [Nat.add_comm, Nat.add_mul_div_right _ _ (hf a), Nat.div_eq_of_lt (j a).2, Nat.zero_add]
    · simp only [offsetOf, join, binSrc]
      rw [Nat.add_comm, Nat.add_mul_mod_self_right, Nat.mod_eq_of_lt (j a).2]
  right_inv k := by
    ext a
    simp only [join, blockOf, offsetOf, binSrc, tileSrc]
    exact Nat.div_add_mod' _ _

variable {K : Type} [Field K]

/-- number of samples per block, `Π f` -/
def blockSize : ℕ := ∏ a, f a

theorem card_blk : Fintype.card (Blk f) = blockSize f := by
  simp [Blk, blockSize, Fintype.card_pi]

/-- `bindown(x, f, 'sum')` -/
def binSum (x : In s f → K) : Out s → K := fun i => ∑ j : Blk f, x (join s f i j)
/-- `bindown(x, f, 'avg')` -/
def binAvg (x : In s f → K) : Out s → K := fun i => binSum s f x i / (blockSize f : K)
/-- `tile(y, f, 'avg')` -/
def tileAvg (y : Out s → K) : In s f → K := fun k => y (blockOf s f k)
/-- `tile(y, f, 'sum')` -/
def tileSum (y : Out s → K) : In s f → K := fun k => y (blockOf s f k) * (1 / (blockSize f : K))

theorem sum_in_eq (g : In s f → K) : ∑ k, g k = ∑ i : Out s, ∑ j : Blk f, g (join s f i j) := by
  rw [← Fintype.sum_prod_type']
  exact (Equiv.sum_comp (blockEquiv s f) g).symm

theorem blockOf_join (i : Out s) (j : Blk f) : blockOf s f (join s f i j) = i :=
  congrArg Prod.fst ((blockEquiv s f).left_inv (i, j))

/-- sum mode conserves the total -/
theorem binSum_total (x : In s f → K) : ∑ i, binSum s f x i = ∑ k, x k := by
  rw [sum_in_eq]; rfl

/-- average mode conserves the level -/
theorem binAvg_const (hne : (blockSize f : K) ≠ 0) (c : K) (i : Out s) : binAvg s f (fun _ => c) i = c := by
  simp only [binAvg, binSum, Finset.sum_const, Finset.card_univ, card_blk, nsmul_eq_mul]
  field_simp

/-- tiling with sum scaling conserves the total -/
theorem tileSum_total (hne : (blockSize f : K) ≠ 0) (y : Out s → K) : ∑ k, tileSum s f y k = ∑ i, y i := by
  rw [sum_in_eq]
  refine Finset.sum_congr rfl fun i _ => ?_
  simp only [tileSum, blockOf_join, Finset.sum_const, Finset.card_univ, card_blk, nsmul_eq_mul]
  field_simp

/-- tiling with average scaling conserves the level (it copies) -/
theorem tileAvg_const (c : K) (k : In s f) : tileAvg s f (fun _ => c) k = c := rfl

/-- `bindown(·, 'sum')` and `tile(·, 'avg')` are adjoint -/
theorem binSum_tileAvg_adjoint (x : In s f → K) (y : Out s → K) :
    ∑ i, y i * binSum s f x i = ∑ k, tileAvg s f y k * x k := by
  rw [sum_in_eq]
  refine Finset.sum_congr rfl fun i _ => ?_
  simp only [binSum, tileAvg, blockOf_join, Finset.mul_sum]

/-- `bindown(·, 'avg')` and `tile(·, 'sum')` are adjoint -/
theorem binAvg_tileSum_adjoint (x : In s f → K) (y : Out s → K) :
    ∑ i, y i * binAvg s f x i = ∑ k, tileSum s f y k * x k := by
  rw [sum_in_eq]
  refine Finset.sum_congr rfl fun i _ => ?_
  simp only [binAvg, binSum, tileSum, blockOf_join]
  rw [div_eq_mul_inv, Finset.sum_mul, Finset.mul_sum]
  refine Finset.sum_congr rfl fun j _ => ?_
  ring

/-- binning undoes tiling in the matching mode -/
theorem binAvg_tileAvg (hne : (blockSize f : K) ≠ 0) (y : Out s → K) : binAvg s f (tileAvg s f y) = y := by
  funext i
  simp only [binAvg, binSum, tileAvg, blockOf_join, Finset.sum_const, Finset.card_univ, card_blk, nsmul_eq_mul]
  field_simp

theorem binSum_tileSum (hne : (blockSize f : K) ≠ 0) (y : Out s → K) : binSum s f (tileSum s f y) = y := by
  funext i
  simp only [binSum, tileSum, blockOf_join, Finset.sum_const, Finset.card_univ, card_blk, nsmul_eq_mul]
  field_simp

end C16L
