import PrysmVerif.Lemmas.C07Field
import Mathlib.Analysis.SpecialFunctions.Sqrt
import Mathlib.Analysis.SpecialFunctions.Pow.Real
/-! # C07 — Forbes' closed forms of the Qbfs polynomials of LOW order (`n ≤ 2`), over `ℝ` with the real square root

Bounded by nature (each order has its own surd); stated as such.  The all-order content is `gen_qbfs` (source = model). -/
set_option linter.unusedVariables false
set_option linter.unusedSimpArgs false

namespace C07L
open Model.C07 Real

theorem sqrt19_sq : √19 * √19 = (19:ℝ) := Real.mul_self_sqrt (by norm_num)

/-- Forbes' auxiliary constants of the Qbfs family, low orders: `f_0 = 2, f_1 = √19/2, g_0 = −1/2, h_0 = −1/2, g_1 = −5/(2√19), f_2 = √(160/19)` -/
theorem qbfs_aux_low : qbfsF Real.sqrt 0 = 2 ∧ qbfsF Real.sqrt 1 = √19 / 2 ∧ qbfsG Real.sqrt 0 = -1 / 2
    ∧ qbfsH 0 (qbfsF Real.sqrt 0) = -1 / 2 ∧ qbfsG Real.sqrt 1 = -5 / (2 * √19) ∧ qbfsF Real.sqrt 2 = √(160 / 19) := by
  have h19 := sqrt19_sq
  have hpos : (0:ℝ) < √19 := Real.sqrt_pos.mpr (by norm_num)
  have hne : (√19 : ℝ) ≠ 0 := hpos.ne'
  refine ⟨by simp [qbfsF, qbfsFG], by simp [qbfsF, qbfsFG], by simp [qbfsG, qbfsFG], by simp [qbfsF, qbfsFG, qbfsH]; norm_num, ?_, ?_⟩
  · simp [qbfsG, qbfsFG, qbfsH]
    field_simp
    norm_num
  · simp only [qbfsF, qbfsFG, qbfsH, nat_eq, ofFrac_eq]
    congr 1
    push_cast
    field_simp
    nlinarith [h19]

/-- **Forbes' closed forms of the first three Qbfs polynomials** (low orders only: `n = 0, 1, 2`), for the hand model over `ℝ`:
    `Q_0 = 1`, `Q_1 = (13 − 16x)/√19`, `Q_2 = √(2/95)·(29 − 4x(25 − 19x))` in `x = u²`, each times `u²(1 − u²)` -/
theorem qbfs_closed_low (u : ℝ) :
    qbfs Real.sqrt 0 u = u ^ 2 * (1 - u ^ 2)
    ∧ qbfs Real.sqrt 1 u = u ^ 2 * (1 - u ^ 2) * ((13 - 16 * u ^ 2) / √19)
    ∧ qbfs Real.sqrt 2 u = u ^ 2 * (1 - u ^ 2) * (√(2 / 95) * (29 - 4 * u ^ 2 * (25 - 19 * u ^ 2))) := by
  obtain ⟨f0, f1, g0, h0, g1, f2⟩ := qbfs_aux_low
  have h19 := sqrt19_sq
  have hpos : (0:ℝ) < √19 := Real.sqrt_pos.mpr (by norm_num)
  refine ⟨by simp [qbfs, qbfsPQ, pow_two], by simp [qbfs, qbfsPQ, pow_two]; ring, ?_⟩
  have key : (1 / √(160 / 19 : ℝ)) * (8 / 19) = √(2 / 95) := by
    have hp : (0:ℝ) < √(160 / 19) := Real.sqrt_pos.mpr (by norm_num)
    have hsq : √(160 / 19 : ℝ) * √(160 / 19) = 160 / 19 := Real.mul_self_sqrt (by norm_num)
    symm
    rw [Real.sqrt_eq_iff_mul_self_eq (by norm_num) (by positivity)]
    field_simp
    nlinarith [hsq]
  have h0' : qbfsH 0 (2:ℝ) = -1 / 2 := by simp [qbfsH]; norm_num
  have e : (√19 : ℝ) ^ 2 = 19 := by rw [pow_two]; exact h19
  simp only [qbfs, qbfsPQ, f0, f1, g0, h0, h0', g1, f2, nat_eq]
  rw [← key]
  have hne : (√19 : ℝ) ≠ 0 := hpos.ne'
  have hne2 : (√(160 / 19 : ℝ)) ≠ 0 := (Real.sqrt_pos.mpr (by norm_num)).ne'
  push_cast
  field_simp
  simp only [e]
  ring

end C07L
