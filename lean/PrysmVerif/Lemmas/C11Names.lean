import PrysmVerif.Model.C11
import Mathlib.Tactic.SplitIfs
import Mathlib.Tactic.Ring
import Mathlib.Data.List.Nodup
import Mathlib.Data.List.Range
/-!
# C11 — the structure of `nm_to_name` (hand model `nameKey`) by class of the order, and its injectivity on the valid orders
-/
set_option linter.unusedSimpArgs false
namespace Model.C11

theorem iabs_cases (m : Int) : (0 ≤ m ∧ iabs m = m) ∨ (m < 0 ∧ iabs m = -m) := by
  unfold iabs; split <;> omega

/-- the structure of a name, by class of the order -/
theorem nameKey_cases (n m : Int) (h : Valid n m) :
    (n = 0 ∧ m = 0 ∧ nameKey n m = (0, 0, 0, 4)) ∨
    (n = 1 ∧ m = 1 ∧ nameKey n m = (1, 0, 1, 0)) ∨
    (n = 1 ∧ m = -1 ∧ nameKey n m = (1, 0, 1, 1)) ∨
    (n = 2 ∧ m = 0 ∧ nameKey n m = (2, 0, 0, 4)) ∨
    (4 ≤ n ∧ m = 0 ∧ nameKey n m = (3, n / 2 - 1, 0, 4)) ∨
    (2 ≤ n ∧ 0 < m ∧ m % 2 = 1 ∧ nameKey n m = (4, (n - 1) / 2, m, 0)) ∨
    (2 ≤ n ∧ m < 0 ∧ m % 2 = 1 ∧ nameKey n m = (4, (n - 1) / 2, -m, 1)) ∨
    (2 ≤ n ∧ 0 < m ∧ m % 2 = 0 ∧ nameKey n m = (4, (n - m) / 2 + 1, m, 2)) ∨
    (2 ≤ n ∧ m < 0 ∧ m % 2 = 0 ∧ nameKey n m = (4, (n + m) / 2 + 1, -m, 3)) := by
  obtain ⟨h1, h2⟩ := h
  unfold nameKey nameAccessor sphericalAccessor
  rcases iabs_cases m with ⟨s, a⟩ | ⟨s, a⟩ <;> rw [a] at h1 h2 ⊢
  · by_cases c0 : n = 0
    · have : m = 0 := by omega
      subst this; subst c0; simp
    by_cases c1 : n = 1
    · have : m = 1 := by omega
      subst this; subst c1; simp
    by_cases c2 : m = 0
    · by_cases c3 : n = 2
      · subst c2; subst c3; simp
      · subst c2; simp only [c0, c1, c3, if_false, if_true]; right; right; right; right; left
        exact ⟨by omega, trivial, by simp⟩
    by_cases c4 : m % 2 = 1
    · simp only [c0, c1, c2, c4, s, if_false, if_true]; right; right; right; right; right; left
      exact ⟨by omega, by omega, trivial, by simp⟩
    · simp only [c0, c1, c2, c4, s, if_false, if_true]; right; right; right; right; right; right; right; left
      exact ⟨by omega, by omega, by omega, by simp⟩
  · have s' : ¬ (0 ≤ m) := by omega
    have c2 : ¬ (m = 0) := by omega
    by_cases c0 : n = 0
    · omega
    by_cases c1 : n = 1
    · have : m = -1 := by omega
      subst this; subst c1; simp
    by_cases c4 : m % 2 = 1
    · simp only [c0, c1, c2, c4, s', if_false, if_true]; right; right; right; right; right; right; left
      exact ⟨by omega, by omega, trivial, by simp⟩
    · simp only [c0, c1, c2, c4, s', if_false, if_true]; right; right; right; right; right; right; right; right
      refine ⟨by omega, by omega, by omega, ?_⟩
      have : n - -m = n + m := by ring
      simp [this]

theorem nameKey_injective (n m n' m' : Int) (h : Valid n m) (h' : Valid n' m')
    (e : nameKey n m = nameKey n' m') : n = n' ∧ m = m' := by
  have v := h; have v' := h'
  obtain ⟨h1, h2⟩ := v
  obtain ⟨h1', h2'⟩ := v'
  rcases iabs_cases m with ⟨s, a⟩ | ⟨s, a⟩ <;> rw [a] at h1 h2 <;>
  rcases iabs_cases m' with ⟨s', a'⟩ | ⟨s', a'⟩ <;> rw [a'] at h1' h2' <;>
  rcases nameKey_cases n m h with ⟨_, _, k⟩ | ⟨_, _, k⟩ | ⟨_, _, k⟩ | ⟨_, _, k⟩ | ⟨_, _, k⟩ | ⟨_, _, _, k⟩ | ⟨_, _, _, k⟩ | ⟨_, _, _, k⟩ | ⟨_, _, _, k⟩ <;>
  rcases nameKey_cases n' m' h' with ⟨_, _, k'⟩ | ⟨_, _, k'⟩ | ⟨_, _, k'⟩ | ⟨_, _, k'⟩ | ⟨_, _, k'⟩ | ⟨_, _, _, k'⟩ | ⟨_, _, _, k'⟩ | ⟨_, _, _, k'⟩ | ⟨_, _, _, k'⟩ <;>
  (rw [k, k'] at e; simp only [Prod.mk.injEq] at e; omega)

/-! ### grouping of a coefficient list by `(n, |m|)` -/

theorem mem_firstKeys (l : List (Int × Int)) (k : Int × Int) : k ∈ firstKeys l ↔ ∃ p ∈ l, magangKey p.1 p.2 = k := by
  induction l with
  | nil => simp [firstKeys]
  | cons p rest ih =>
    simp only [firstKeys, List.mem_cons, List.mem_filter, ih, decide_eq_true_eq, ne_eq, exists_eq_or_imp]
    constructor
    · rintro (h | ⟨h, _⟩)
      · exact Or.inl h.symm
      · exact Or.inr h
    · rintro (h | h)
      · exact Or.inl h.symm
      · by_cases e : k = magangKey p.1 p.2
        · exact Or.inl e
        · exact Or.inr ⟨h, e⟩

theorem firstKeys_nodup (l : List (Int × Int)) : (firstKeys l).Nodup := by
  induction l with
  | nil => simp [firstKeys]
  | cons p rest ih =>
    simp only [firstKeys, List.nodup_cons]
    refine ⟨?_, ih.filter _⟩
    simp [List.mem_filter]

theorem mem_positionsOf (l : List (Int × Int)) (k : Int × Int) (i : Nat) :
    i ∈ positionsOf l k ↔ ∃ h : i < l.length, magangKey (l[i]).1 (l[i]).2 = k := by
  unfold positionsOf
  simp only [List.mem_filter, List.mem_range]
  constructor
  · rintro ⟨h, e⟩
    refine ⟨h, ?_⟩
    rw [List.getElem?_eq_getElem h] at e
    simpa using e
  · rintro ⟨h, e⟩
    refine ⟨h, ?_⟩
    rw [List.getElem?_eq_getElem h]
    simpa using e

theorem positionsOf_sorted (l : List (Int × Int)) (k : Int × Int) : (positionsOf l k).Pairwise (· < ·) := by
  unfold positionsOf
  exact List.Pairwise.filter _ List.pairwise_lt_range


end Model.C11
