import PrysmVerif.Model.C06
import Mathlib.Algebra.BigOperators.Ring.Finset
import Mathlib.Algebra.BigOperators.Intervals
import Mathlib.Algebra.Field.Basic
import Mathlib.Tactic.Ring
import Mathlib.Tactic.FieldSimp
import Mathlib.Tactic.Linarith
/-!
# C06 helper lemmas: the `Num` bridge for fields, `sumTo = Finset.sum`, `tab = id`,
and the adjoint algebra of the linear building blocks
-/
set_option linter.unusedSectionVars false
set_option linter.unusedVariables false

namespace C06L
open Model.C06 Finset

/-- every field carries the `Num` signature (scoped to this namespace) -/
scoped instance (priority := 100) numOfField {K : Type} [Field K] : Num K := { ofInt := fun i => (i : K) }

section
variable {C : Type} [Field C]

@[simp] theorem ofInt_eq (i : Int) : (Num.ofInt i : C) = (i : C) := rfl

theorem sumTo_eq (n : Nat) (f : Nat → C) : Num.sumTo n f = ∑ i ∈ range n, f i := by
  induction n with
  | zero => simp [Num.sumTo]
  | succ k ih => rw [Num.sumTo, ih, Finset.sum_range_succ]

end

section tab
variable {C : Type} [Num C]

/-- inside its extents a table returns the tabulated function -/
theorem Tab.fn_ofFn (m n : Nat) (f : Mat C) (i j : Nat) (hi : i < m) (hj : j < n) :
    (Tab.ofFn m n f).fn i j = f i j := by
  have hlt : i * n + j < m * n := by
    calc i * n + j < i * n + n := by omega
      _ = (i + 1) * n := by ring
      _ ≤ m * n := Nat.mul_le_mul_right n (by omega)
  have hd : (i * n + j) / n = i := by
    rw [Nat.mul_comm, Nat.mul_add_div (by omega), Nat.div_eq_of_lt hj]; simp
  have hm : (i * n + j) % n = j := by
    rw [Nat.mul_comm, Nat.mul_add_mod, Nat.mod_eq_of_lt hj]
  simp [Tab.fn, Tab.ofFn, hi, hj, hlt, hd, hm, Array.getD]

end tab

end C06L
