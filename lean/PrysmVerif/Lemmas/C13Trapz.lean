import PrysmVerif.Lemmas.C13Num
import Mathlib.Tactic.Linarith
import Mathlib.Tactic.Positivity
import Mathlib.Algebra.Order.BigOperators.Group.Finset
/-!
# C13 — the composite trapezoid rule of the model as a weighted sum

`trapz n d y = d · Σ_{i<n} tw n i · y i` with weight `1` inside and `1/2` at each end (`0` for a
single sample); the 2-D version; monotonicity and linearity; the band mask over `ℝ`.
-/
namespace C13L
open scoped C13L
open Model.C13 Finset

/-- trapezoid weight of sample `i` of `n`: `1` inside, `1/2` at each end (and `0` for a single sample) -/
noncomputable def tw (n i : ℕ) : ℝ := (if 0 < i then 1 / 2 else 0) + (if i + 1 < n then 1 / 2 else 0)

theorem tw_nonneg (n i : ℕ) : 0 ≤ tw n i := by
  unfold tw; split <;> split <;> norm_num

theorem tw_le_one (n i : ℕ) : tw n i ≤ 1 := by
  unfold tw; split <;> split <;> norm_num

theorem tw_interior (n i : ℕ) (h0 : 0 < i) (h1 : i + 1 < n) : tw n i = 1 := by
  unfold tw; rw [if_pos h0, if_pos h1]; norm_num

theorem trapz_weights (n : ℕ) (d : ℝ) (y : ℕ → ℝ) :
    trapz n d y = d * ∑ i ∈ range n, tw n i * y i := by
  rw [trapz_eq]
  cases n with
  | zero => simp
  | succ k =>
    simp only [Nat.add_sub_cancel]
    have h1 : ∑ i ∈ range (k + 1), (if 0 < i then (1:ℝ) / 2 else 0) * y i = ∑ i ∈ range k, 1 / 2 * y (i + 1) := by
      rw [sum_range_succ']; simp
    have h2 : ∑ i ∈ range (k + 1), (if i + 1 < k + 1 then (1:ℝ) / 2 else 0) * y i = ∑ i ∈ range k, 1 / 2 * y i := by
      rw [sum_range_succ]
      simp only [lt_self_iff_false, if_false, zero_mul, add_zero]
      refine sum_congr rfl fun i hi => ?_
      rw [if_pos (by simpa using mem_range.mp hi)]
    simp only [tw, add_mul, sum_add_distrib, h1, h2]
    rw [← sum_add_distrib, mul_sum]
    refine sum_congr rfl fun i _ => ?_
    ring

end C13L

namespace C13L
open scoped C13L
open Model.C13 Finset

theorem trapz2_weights (m n : ℕ) (dy dx : ℝ) (P : ℕ → ℕ → ℝ) :
    trapz2 m n dy dx P = dy * dx * ∑ i ∈ range m, ∑ j ∈ range n, tw m i * tw n j * P i j := by
  unfold trapz2
  rw [trapz_weights]
  simp only [trapz_weights]
  rw [sum_comm]
  simp only [mul_sum]
  refine sum_congr rfl fun j _ => sum_congr rfl fun i _ => ?_
  ring

/-- the strict comparison handed to the model when it is read over `ℝ` -/
noncomputable def rlt : ℝ → ℝ → Bool := fun a b => decide (a < b)

theorem bandMask_eq (flow fhigh : ℝ) (r P : ℕ → ℕ → ℝ) (i j : ℕ) :
    bandMask rlt flow fhigh r P i j = if flow ≤ r i j ∧ r i j ≤ fhigh then P i j else 0 := by
  unfold bandMask rlt
  simp only [decide_eq_true_eq, ofInt_eq, Int.cast_zero]
  by_cases h1 : r i j < flow
  · rw [if_pos h1, if_neg]; intro h; linarith [h.1]
  · rw [if_neg h1]
    by_cases h2 : fhigh < r i j
    · rw [if_pos h2, if_neg]; intro h; linarith [h.2]
    · rw [if_neg h2, if_pos ⟨not_lt.mp h1, not_lt.mp h2⟩]

theorem trapz2_mono (m n : ℕ) (dy dx : ℝ) (hdy : 0 ≤ dy) (hdx : 0 ≤ dx) (P Q : ℕ → ℕ → ℝ)
    (h : ∀ i j, i < m → j < n → P i j ≤ Q i j) : trapz2 m n dy dx P ≤ trapz2 m n dy dx Q := by
  rw [trapz2_weights, trapz2_weights]
  apply mul_le_mul_of_nonneg_left _ (mul_nonneg hdy hdx)
  apply sum_le_sum; intro i hi
  apply sum_le_sum; intro j hj
  exact mul_le_mul_of_nonneg_left (h i j (mem_range.mp hi) (mem_range.mp hj))
    (mul_nonneg (tw_nonneg m i) (tw_nonneg n j))

theorem trapz2_linear (m n : ℕ) (dy dx a b : ℝ) (P Q : ℕ → ℕ → ℝ) :
    trapz2 m n dy dx (fun i j => a * P i j + b * Q i j) = a * trapz2 m n dy dx P + b * trapz2 m n dy dx Q := by
  simp only [trapz2_weights, mul_sum, ← sum_add_distrib]
  refine sum_congr rfl fun i _ => sum_congr rfl fun j _ => ?_
  ring

end C13L
