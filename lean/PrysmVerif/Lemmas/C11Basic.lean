import PrysmVerif.Model.C11
import Mathlib.Tactic.Linarith
import Mathlib.Tactic.Ring
import Mathlib.Data.Nat.Sqrt
/-!
# C11 — arithmetic facts about `ceilSqrt`, `tri`, `triRoot` (all arguments, no bound)
-/
namespace Model.C11

/-- Galois connection defining `⌈√j⌉`: `⌈√j⌉ ≤ t ↔ j ≤ t²` -/
theorem ceilSqrt_le_iff (j t : Nat) : ceilSqrt j ≤ t ↔ j ≤ t * t := by
  unfold ceilSqrt
  have h1 := Nat.sqrt_le j
  have h2 := Nat.lt_succ_sqrt j
  simp only
  split_ifs with h
  · constructor
    · intro hs
      have := Nat.mul_self_le_mul_self hs
      omega
    · intro hj
      rw [← h] at hj
      exact Nat.mul_self_le_mul_self_iff.mp hj
  · constructor
    · intro hs
      have := Nat.mul_self_le_mul_self hs
      simp only [Nat.succ_eq_add_one] at h2
      omega
    · intro hj
      have hlt : Nat.sqrt j * Nat.sqrt j < t * t := by omega
      have := Nat.mul_self_lt_mul_self_iff.mp hlt
      omega

theorem lt_ceilSqrt_iff (j t : Nat) : t < ceilSqrt j ↔ t * t < j := by
  have := ceilSqrt_le_iff j t
  omega

/-- `⌈√j⌉ = s` exactly when `(s-1)² < j ≤ s²` -/
theorem ceilSqrt_eq_succ (j k : Nat) (h1 : k * k < j) (h2 : j ≤ (k + 1) * (k + 1)) : ceilSqrt j = k + 1 := by
  have a := (ceilSqrt_le_iff j (k + 1)).mpr h2
  have b := (lt_ceilSqrt_iff j k).mpr h1
  omega

theorem ceilSqrt_pos (j : Nat) (hj : 1 ≤ j) : 1 ≤ ceilSqrt j := by
  have := (lt_ceilSqrt_iff j 0).mpr (by omega)
  omega

/-- for `j ≥ 1`: with `k = ⌈√j⌉ - 1`, `k² < j ≤ (k+1)²` -/
theorem ceilSqrt_spec (j : Nat) (hj : 1 ≤ j) :
    ∃ k : Nat, ceilSqrt j = k + 1 ∧ k * k < j ∧ j ≤ (k + 1) * (k + 1) := by
  have hp := ceilSqrt_pos j hj
  refine ⟨ceilSqrt j - 1, by omega, ?_, ?_⟩
  · exact (lt_ceilSqrt_iff j _).mp (by omega)
  · have := (ceilSqrt_le_iff j (ceilSqrt j)).mp (le_refl _)
    have e : ceilSqrt j - 1 + 1 = ceilSqrt j := by omega
    rw [e]; exact this

/-! ### triangular numbers -/

theorem two_mul_tri (d : Int) : 2 * tri d = d * (d + 1) := by
  unfold tri
  have h : (d * (d + 1)) % 2 = 0 := by
    rcases Int.emod_two_eq_zero_or_one d with h | h
    · rw [Int.mul_emod, h]; simp
    · rw [Int.mul_emod, Int.add_emod, h]; simp
  omega

theorem tri_succ (d : Int) : tri (d + 1) = tri d + d + 1 := by
  have a := two_mul_tri d
  have b := two_mul_tri (d + 1)
  have : (d + 1) * (d + 1 + 1) = d * (d + 1) + 2 * (d + 1) := by ring
  omega

theorem tri_zero : tri 0 = 0 := by decide

theorem tri_nonneg (d : Int) (h : 0 ≤ d) : 0 ≤ tri d := by
  have a := two_mul_tri d
  have : 0 ≤ d * (d + 1) := by positivity
  omega

theorem tri_mono (a b : Int) (h0 : 0 ≤ a) (h : a ≤ b) : tri a ≤ tri b := by
  have ha := two_mul_tri a
  have hb := two_mul_tri b
  have : a * (a + 1) ≤ b * (b + 1) := by nlinarith
  omega

/-- strict version: `a < b → tri a + a + 1 ≤ tri b` (rows do not overlap) -/
theorem tri_lt (a b : Int) (h0 : 0 ≤ a) (h : a < b) : tri a + a + 1 ≤ tri b := by
  rw [← tri_succ]; exact tri_mono _ _ (by omega) (by omega)

theorem le_tri (d : Int) (h : 0 ≤ d) : d ≤ tri d := by
  have a := two_mul_tri d
  have : d * (d + 1) ≥ 2 * d ∨ d = 0 := by
    rcases (by omega : d = 0 ∨ 1 ≤ d) with h | h
    · right; exact h
    · left; nlinarith
  rcases this with h | h
  · omega
  · subst h; decide

/-- `triRoot t` is the row of `t`: `T(d) ≤ t < T(d+1)` -/
theorem triRoot_bounds (t : Nat) :
    tri (triRoot t) ≤ t ∧ (t : Int) < tri (triRoot t) + triRoot t + 1 := by
  have h1 := Nat.sqrt_le (8 * t + 1)
  have h2 := Nat.lt_succ_sqrt (8 * t + 1)
  have hs : 1 ≤ Nat.sqrt (8 * t + 1) := Nat.le_sqrt.mpr (by omega)
  have e := two_mul_tri (triRoot t)
  unfold triRoot at *
  generalize Nat.sqrt (8 * t + 1) = s at *
  simp only [Nat.succ_eq_add_one] at h2
  set d := (s - 1) / 2 with hd
  have hcases : s = 2 * d + 1 ∨ s = 2 * d + 2 := by omega
  have h1' : ((s : Int)) * s ≤ 8 * t + 1 := by exact_mod_cast h1
  have h2' : (8 * (t : Int) + 1) < (s + 1) * (s + 1) := by exact_mod_cast h2
  have hd0 : (0 : Int) ≤ d := Int.natCast_nonneg d
  constructor
  · have : (d : Int) * (d + 1) ≤ 2 * t := by
      rcases hcases with h | h <;> (rw [h] at h1'; push_cast at h1'; nlinarith)
    omega
  · have : 2 * (t : Int) < (d + 1) * (d + 2) := by
      rcases hcases with h | h <;> (rw [h] at h2'; push_cast at h2'; nlinarith)
    have : ((d : Int) + 1) * (d + 2) = d * (d + 1) + 2 * (d + 1) := by ring
    omega

/-- uniqueness of the row: `T(d) ≤ t < T(d+1)` forces `d = triRoot t` -/
theorem triRoot_eq (t : Nat) (d : Int) (h0 : 0 ≤ d) (h1 : tri d ≤ t) (h2 : (t : Int) < tri d + d + 1) :
    (triRoot t : Int) = d := by
  obtain ⟨b1, b2⟩ := triRoot_bounds t
  have r0 : (0 : Int) ≤ triRoot t := Int.natCast_nonneg _
  rcases lt_trichotomy (triRoot t : Int) d with h | h | h
  · have := tri_lt _ _ r0 h; omega
  · exact h
  · have := tri_lt _ _ h0 h; omega

theorem triRoot_mono {s t : Nat} (h : s ≤ t) : triRoot s ≤ triRoot t := by
  unfold triRoot
  have : Nat.sqrt (8 * s + 1) ≤ Nat.sqrt (8 * t + 1) := Nat.sqrt_le_sqrt (by omega)
  omega

end Model.C11
