import PrysmVerif.Lemmas.C02Energy
/-!
# C02 — the plain (unshifted, unnormalised) DFT pair and the angular-spectrum operator `ifft2(fft2(f)·tf)`
-/
set_option linter.unusedSectionVars false
set_option linter.unusedVariables false

namespace C01
open Finset Model.C01 Model.C02

variable {R K : Type} [Field R] [CharZero R] [Field K] [CharZero K]
variable {e : R → K} (nrm : R → K)

/-! ## 1-D -/

def dftKer (e : R → K) (L : Nat) (q t : Nat) : K := e (((t : R) * (q : R)) / (L : R))

theorem dftL_as_kernel (L : Nat) (x : Nat → K) (q : Nat) : dftL e L x q = ∑ t ∈ range L, dftKer e L q t * x t := by
  simp only [dftL_eq, dftKer]
  exact Finset.sum_congr rfl fun t _ => by ring

theorem idftL_as_kernel (cj : K →+* K) (hc : IsConj cj e nrm) (L : Nat) (X : Nat → K) (t : Nat) :
    idftL e L X t = (1 / (L : K)) * ∑ q ∈ range L, cj (dftKer e L q t) * X q := by
  simp only [idftL_eq, dftKer, hc.e_conj]
  congr 1
  exact Finset.sum_congr rfl fun q _ => by ring

/-- `Eᴴ E = L · 1` for the plain DFT matrix, from orthogonality -/
theorem dftKer_gram (he : IsChar e) (hf : IsFaithful e) (cj : K →+* K) (hc : IsConj cj e nrm) (L : Nat) (hL : 0 < L) :
    IsGramC (L : K) (range L) (range L) (dftKer e L) cj := by
  intro t ht t' ht'
  have h1 := mem_range.1 ht
  have h2 := mem_range.1 ht'
  have hLR : (L : R) ≠ 0 := Nat.cast_ne_zero.mpr hL.ne'
  have hs : ∀ q ∈ range L, dftKer e L q t * cj (dftKer e L q t')
      = e ((q : R) * ((((t : ℤ) - (t' : ℤ) : ℤ) : R) / (L : R))) := by
    intro q _
    unfold dftKer
    rw [hc.e_conj, ← he.add]; congr 1; push_cast; field_simp; ring
  rw [Finset.sum_congr rfl hs, he.ortho hf L hL]
  by_cases h : t = t'
  · subst h; simp
  · rw [if_neg h, if_neg]
    intro hdvd
    rcases lt_or_gt_of_ne (show (t : ℤ) - t' ≠ 0 by omega) with hneg | hpos
    · have := Int.le_of_dvd (by omega : (0 : ℤ) < -((t : ℤ) - t')) ((Int.dvd_neg).2 hdvd)
      omega
    · have := Int.le_of_dvd hpos hdvd
      omega

/-- `ifft(fft(x)) = x` -/
theorem idftL_dftL (he : IsChar e) (hf : IsFaithful e) (cj : K →+* K) (hc : IsConj cj e nrm) (L : Nat) (hL : 0 < L)
    (x : Nat → K) (t : Nat) (ht : t < L) : idftL e L (dftL e L x) t = x t := by
  have hLK : (L : K) ≠ 0 := Nat.cast_ne_zero.mpr hL.ne'
  rw [idftL_as_kernel nrm cj hc]
  simp only [dftL_as_kernel]
  rw [gramC_left_inverse (L : K) _ _ _ cj (dftKer_gram nrm he hf cj hc L hL) x t (mem_range.2 ht)]
  field_simp

theorem isConj_reflect (cj : K →+* K) (hc : IsConj cj e nrm) : IsConj cj (fun t => e (-t)) nrm where
  e_conj t := by show cj (e (-t)) = e (- -t); rw [hc.e_conj]
  nrm_conj := hc.nrm_conj
  invol := hc.invol

theorem isFaithful_reflect (hf : IsFaithful e) : IsFaithful (fun t => e (-t)) := by
  intro t ht
  obtain ⟨k, hk⟩ := hf (-t) ht
  exact ⟨-k, by push_cast; rw [← hk]; ring⟩

/-- `fft(ifft(X)) = X` -/
theorem dftL_idftL (he : IsChar e) (hf : IsFaithful e) (cj : K →+* K) (hc : IsConj cj e nrm) (L : Nat) (hL : 0 < L)
    (X : Nat → K) (q : Nat) (hq : q < L) : dftL e L (idftL e L X) q = X q := by
  have key := idftL_dftL (e := fun t => e (-t)) nrm he.reflect (isFaithful_reflect hf) cj (isConj_reflect nrm cj hc) L hL X q hq
  rw [← key]
  simp only [idftL_eq, dftL_eq, neg_neg, Finset.mul_sum, Finset.sum_mul]
  refine Finset.sum_congr rfl fun t _ => Finset.sum_congr rfl fun q' _ => ?_
  have : (q : R) * (t : R) / (L : R) = (t : R) * (q : R) / (L : R) := by ring
  have h2 : (t : R) * (q' : R) / (L : R) = (q' : R) * (t : R) / (L : R) := by ring
  rw [this, h2]; ring

/-- Parseval for the plain DFT: `Σ|fft x|² = L Σ|x|²` -/
theorem dftL_parseval (he : IsChar e) (hf : IsFaithful e) (cj : K →+* K) (hc : IsConj cj e nrm) (L : Nat) (hL : 0 < L)
    (x : Nat → K) : energy1 cj L (dftL e L x) = (L : K) * energy1 cj L x := by
  simp only [energy1_eq, dftL_as_kernel]
  exact gramC_parseval (L : K) _ _ _ cj (dftKer_gram nrm he hf cj hc L hL) x

/-- `Σ|ifft X|² = (1/L) Σ|X|²` -/
theorem idftL_parseval (he : IsChar e) (hf : IsFaithful e) (cj : K →+* K) (hc : IsConj cj e nrm) (L : Nat) (hL : 0 < L)
    (X : Nat → K) : energy1 cj L (idftL e L X) = (1 / (L : K)) * energy1 cj L X := by
  have hLK : (L : K) ≠ 0 := Nat.cast_ne_zero.mpr hL.ne'
  have h := dftL_parseval nrm he hf cj hc L hL (idftL e L X)
  have h2 : energy1 cj L (dftL e L (idftL e L X)) = energy1 cj L X := by
    simp only [energy1_eq]
    exact Finset.sum_congr rfl fun q hq => by rw [dftL_idftL nrm he hf cj hc L hL X q (mem_range.1 hq)]
  rw [h2] at h
  rw [h]; field_simp

/-- transforms along different axes commute -/
theorem idftL_dftL_comm (K' L : Nat) (g : Nat → Nat → K) (u i : Nat) :
    idftL e L (fun q => dftL e K' (fun u' => g u' q) u) i = dftL e K' (fun u' => idftL e L (g u') i) u := by
  simp only [idftL_eq, dftL_eq, Finset.mul_sum, Finset.sum_mul]
  rw [Finset.sum_comm]
  exact Finset.sum_congr rfl fun u' _ => Finset.sum_congr rfl fun q _ => by ring

theorem dftL_idftL_comm (K' L : Nat) (g : Nat → Nat → K) (u q : Nat) :
    dftL e L (fun v => idftL e K' (fun u' => g u' v) u) q = idftL e K' (fun u' => dftL e L (g u') q) u := by
  simp only [idftL_eq, dftL_eq, Finset.mul_sum, Finset.sum_mul]
  rw [Finset.sum_comm]
  exact Finset.sum_congr rfl fun u' _ => Finset.sum_congr rfl fun q _ => by ring

/-! ## 2-D -/

/-- `ifft2(fft2(x)) = x` on the grid -/
theorem idft2_dft2 (he : IsChar e) (hf : IsFaithful e) (cj : K →+* K) (hc : IsConj cj e nrm) (K' L : Nat)
    (hK : 0 < K') (hL : 0 < L) (x : Nat → Nat → K) (j i : Nat) (hj : j < K') (hi : i < L) :
    idftL e K' (fun u => idftL e L (fun q => dftL e K' (fun u' => dftL e L (x u') q) u) i) j = x j i := by
  have h1 : (fun u => idftL e L (fun q => dftL e K' (fun u' => dftL e L (x u') q) u) i)
      = dftL e K' (fun u' => idftL e L (dftL e L (x u')) i) := by
    funext u; exact idftL_dftL_comm K' L (fun u' q => dftL e L (x u') q) u i
  rw [h1]
  have h2 : ∀ u, dftL e K' (fun u' => idftL e L (dftL e L (x u')) i) u = dftL e K' (fun u' => x u' i) u := by
    intro u
    apply dftL_congr
    intro u' _
    exact idftL_dftL nrm he hf cj hc L hL (x u') i hi
  rw [funext h2]
  exact idftL_dftL nrm he hf cj hc K' hK (fun u' => x u' i) j hj

/-- `fft2(ifft2(X)) = X` on the grid -/
theorem dft2_idft2 (he : IsChar e) (hf : IsFaithful e) (cj : K →+* K) (hc : IsConj cj e nrm) (K' L : Nat)
    (hK : 0 < K') (hL : 0 < L) (X : Nat → Nat → K) (p q : Nat) (hp : p < K') (hq : q < L) :
    dftL e K' (fun u => dftL e L (fun v => idftL e K' (fun u' => idftL e L (X u') v) u) q) p = X p q := by
  have h1 : (fun u => dftL e L (fun v => idftL e K' (fun u' => idftL e L (X u') v) u) q)
      = idftL e K' (fun u' => dftL e L (idftL e L (X u')) q) := by
    funext u; exact dftL_idftL_comm K' L (fun u' v => idftL e L (X u') v) u q
  rw [h1]
  have h2 : ∀ u, idftL e K' (fun u' => dftL e L (idftL e L (X u')) q) u = idftL e K' (fun u' => X u' q) u := by
    intro u
    apply idftL_congr
    intro u' _
    exact dftL_idftL nrm he hf cj hc L hL (X u') q hq
  rw [funext h2]
  exact dftL_idftL nrm he hf cj hc K' hK (fun u' => X u' q) p hp

/-- `Σ|fft2 x|² = K·L·Σ|x|²` -/
theorem dft2_parseval (he : IsChar e) (hf : IsFaithful e) (cj : K →+* K) (hc : IsConj cj e nrm) (K' L : Nat)
    (hK : 0 < K') (hL : 0 < L) (x : Nat → Nat → K) :
    energy2 cj K' L (fun p q => dftL e K' (fun u => dftL e L (x u) q) p) = ((K' : K) * (L : K)) * energy2 cj K' L x := by
  rw [energy2_eq_sum_cols]
  have h1 : ∀ q ∈ range L, energy1 cj K' (fun p => dftL e K' (fun u => dftL e L (x u) q) p)
      = (K' : K) * energy1 cj K' (fun u => dftL e L (x u) q) := by
    intro q _
    exact dftL_parseval nrm he hf cj hc K' hK _
  rw [Finset.sum_congr rfl h1, ← Finset.mul_sum, ← energy2_eq_sum_cols, energy2_eq_sum_energy1]
  have h2 : ∀ u ∈ range K', energy1 cj L (fun q => dftL e L (x u) q) = (L : K) * energy1 cj L (x u) := by
    intro u _
    exact dftL_parseval nrm he hf cj hc L hL (x u)
  rw [Finset.sum_congr rfl h2, ← Finset.mul_sum, ← energy2_eq_sum_energy1]; ring

/-- `Σ|ifft2 X|² = Σ|X|²/(K·L)` -/
theorem idft2_parseval (he : IsChar e) (hf : IsFaithful e) (cj : K →+* K) (hc : IsConj cj e nrm) (K' L : Nat)
    (hK : 0 < K') (hL : 0 < L) (X : Nat → Nat → K) :
    energy2 cj K' L (fun p q => idftL e K' (fun u => idftL e L (X u) q) p)
      = (1 / ((K' : K) * (L : K))) * energy2 cj K' L X := by
  rw [energy2_eq_sum_cols]
  have h1 : ∀ q ∈ range L, energy1 cj K' (fun p => idftL e K' (fun u => idftL e L (X u) q) p)
      = (1 / (K' : K)) * energy1 cj K' (fun u => idftL e L (X u) q) := by
    intro q _
    exact idftL_parseval nrm he hf cj hc K' hK _
  rw [Finset.sum_congr rfl h1, ← Finset.mul_sum, ← energy2_eq_sum_cols, energy2_eq_sum_energy1]
  have h2 : ∀ u ∈ range K', energy1 cj L (fun q => idftL e L (X u) q) = (1 / (L : K)) * energy1 cj L (X u) := by
    intro u _
    exact idftL_parseval nrm he hf cj hc L hL (X u)
  rw [Finset.sum_congr rfl h2, ← Finset.mul_sum, ← energy2_eq_sum_energy1]
  have hKK : (K' : K) ≠ 0 := Nat.cast_ne_zero.mpr hK.ne'
  have hLK : (L : K) ≠ 0 := Nat.cast_ne_zero.mpr hL.ne'
  field_simp

/-! ## the angular-spectrum operator on arrays -/

/-- the array pipeline of `aspApply` as nested 1-D transforms -/
theorem aspApply_rd (K' L : Nat) (tf : Nat → Nat → K) (f : Array (Array K)) (j i : Nat) (hj : j < K') (hi : i < L) :
    rd2 (aspApply e (K', L) tf f) j i
      = idftL e K' (fun u => idftL e L (fun q => dftL e K' (fun u' => dftL e L (rd2 f u') q) u * tf u q) i) j := by
  unfold aspApply
  simp only
  rw [rd2_idft2KL _ _ _ _ _ hj hi]
  apply idftL_congr
  intro u hu
  apply idftL_congr
  intro q hq
  rw [rd2_tab2_lt _ hu hq, rd2_dft2KL _ _ _ _ _ hu hq]

/-- all-pass transfer function: the operator is the identity -/
theorem aspApply_one (he : IsChar e) (hf : IsFaithful e) (cj : K →+* K) (hc : IsConj cj e nrm) (K' L : Nat)
    (tf : Nat → Nat → K) (htf : ∀ p q, p < K' → q < L → tf p q = 1) (f : Array (Array K))
    (j i : Nat) (hj : j < K') (hi : i < L) :
    rd2 (aspApply e (K', L) tf f) j i = rd2 f j i := by
  rw [aspApply_rd K' L tf f j i hj hi]
  have : ∀ u, u < K' → idftL e L (fun q => dftL e K' (fun u' => dftL e L (rd2 f u') q) u * tf u q) i
      = idftL e L (fun q => dftL e K' (fun u' => dftL e L (rd2 f u') q) u) i := by
    intro u hu
    apply idftL_congr
    intro q hq
    rw [htf u q hu hq, mul_one]
  rw [idftL_congr K' this]
  exact idft2_dft2 nrm he hf cj hc K' L (by omega) (by omega) (rd2 f) j i hj hi

/-- composition: applying `tf2` then `tf1` is applying `tf1·tf2` -/
theorem aspApply_comp (he : IsChar e) (hf : IsFaithful e) (cj : K →+* K) (hc : IsConj cj e nrm) (K' L : Nat)
    (tf1 tf2 : Nat → Nat → K) (f : Array (Array K)) (j i : Nat) (hj : j < K') (hi : i < L) :
    rd2 (aspApply e (K', L) tf1 (aspApply e (K', L) tf2 f)) j i
      = rd2 (aspApply e (K', L) (fun p q => tf2 p q * tf1 p q) f) j i := by
  rw [aspApply_rd K' L tf1 _ j i hj hi, aspApply_rd K' L _ f j i hj hi]
  apply idftL_congr
  intro u hu
  apply idftL_congr
  intro q hq
  rw [← mul_assoc]
  congr 1
  have h1 : dftL e K' (fun u' => dftL e L (rd2 (aspApply e (K', L) tf2 f) u') q) u
      = dftL e K' (fun u' => dftL e L (fun v => idftL e K' (fun u'' => idftL e L
          (fun q' => dftL e K' (fun w => dftL e L (rd2 f w) q') u'' * tf2 u'' q') v) u') q) u := by
    apply dftL_congr
    intro u' hu'
    apply dftL_congr
    intro v hv
    exact aspApply_rd K' L tf2 f u' v hu' hv
  rw [h1]
  exact dft2_idft2 nrm he hf cj hc K' L (by omega) (by omega)
    (fun u'' q' => dftL e K' (fun w => dftL e L (rd2 f w) q') u'' * tf2 u'' q') u q hu hq

/-- a unit-modulus transfer function conserves energy -/
theorem aspApply_energy (he : IsChar e) (hf : IsFaithful e) (cj : K →+* K) (hc : IsConj cj e nrm) (K' L : Nat)
    (hK : 0 < K') (hL : 0 < L) (tf : Nat → Nat → K) (htf : ∀ p q, p < K' → q < L → cj (tf p q) * tf p q = 1)
    (f : Array (Array K)) :
    energy2 cj K' L (rd2 (aspApply e (K', L) tf f)) = energy2 cj K' L (rd2 f) := by
  have hKK : (K' : K) ≠ 0 := Nat.cast_ne_zero.mpr hK.ne'
  have hLK : (L : K) ≠ 0 := Nat.cast_ne_zero.mpr hL.ne'
  have h1 : energy2 cj K' L (rd2 (aspApply e (K', L) tf f))
      = energy2 cj K' L (fun j i => idftL e K' (fun u => idftL e L
          ((fun u q => dftL e K' (fun u' => dftL e L (rd2 f u') q) u * tf u q) u) i) j) := by
    apply energy2_congr
    intro j i hj hi
    exact aspApply_rd K' L tf f j i hj hi
  rw [h1, idft2_parseval nrm he hf cj hc K' L hK hL]
  have h2 : energy2 cj K' L (fun u q => dftL e K' (fun u' => dftL e L (rd2 f u') q) u * tf u q)
      = energy2 cj K' L (fun u q => dftL e K' (fun u' => dftL e L (rd2 f u') q) u) := by
    simp only [energy2_eq]
    refine Finset.sum_congr rfl fun u hu => Finset.sum_congr rfl fun q hq => ?_
    rw [map_mul]
    have := htf u q (mem_range.1 hu) (mem_range.1 hq)
    calc _ = (dftL e K' (fun u' => dftL e L (rd2 f u') q) u * cj (dftL e K' (fun u' => dftL e L (rd2 f u') q) u))
              * (cj (tf u q) * tf u q) := by ring
      _ = _ := by rw [this, mul_one]
  rw [h2, dft2_parseval nrm he hf cj hc K' L hK hL]
  field_simp

end C01
