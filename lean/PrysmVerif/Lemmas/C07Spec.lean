import PrysmVerif.Lemmas.C07Field
/-! # C07 — independent transcriptions of textbook definitions (reviewable in a minute)

DLMF 18.9.1–2 (Jacobi): `P_{n+1} = (A_n x + B_n) P_n − C_n P_{n−1}` with
`A_n = (2n+α+β+1)(2n+α+β+2) / (2(n+1)(n+α+β+1))`,
`B_n = (α²−β²)(2n+α+β+1) / (2(n+1)(n+α+β+1)(2n+α+β))`,
`C_n = (n+α)(n+β)(2n+α+β+2) / ((n+1)(n+α+β+1)(2n+α+β))`;  DLMF 18.5.7: `P_0 = 1`, `P_1 = (α+1) + (α+β+2)(x−1)/2`.
-/
namespace C07L
variable {K : Type} [Field K]

def dlmfA (n a b : K) : K := (2 * n + a + b + 1) * (2 * n + a + b + 2) / (2 * (n + 1) * (n + a + b + 1))
def dlmfB (n a b : K) : K :=
  (a ^ 2 - b ^ 2) * (2 * n + a + b + 1) / (2 * (n + 1) * (n + a + b + 1) * (2 * n + a + b))
def dlmfC (n a b : K) : K :=
  (n + a) * (n + b) * (2 * n + a + b + 2) / ((n + 1) * (n + a + b + 1) * (2 * n + a + b))
def dlmfP1 (a b x : K) : K := (a + 1) + (a + b + 2) * (x - 1) / 2

/-- the Jacobi family defined by DLMF's recurrence alone -/
def dlmfJacobi (a b x : K) : ℕ → K × K
  | 0 => (1, dlmfP1 a b x)
  | n+1 =>
    let p := dlmfJacobi a b x n
    (p.2, (dlmfA ((n:K) + 1) a b * x + dlmfB ((n:K) + 1) a b) * p.2 - dlmfC ((n:K) + 1) a b * p.1)

/-- Zernike radial polynomial, textbook form `R_n^m(r) = r^m P^{(0,m)}_{(n−m)/2}(2r²−1)` for `0 ≤ m ≤ n`, `n − m` even -/
def zernikeRadialSpec (P : ℕ → K → K → K → K) (n m : ℕ) (r : K) : K :=
  r ^ m * P ((n - m) / 2) 0 m (2 * r ^ 2 - 1)

end C07L
