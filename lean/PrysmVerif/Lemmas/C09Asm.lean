import PrysmVerif.Lemmas.C09Der
import PrysmVerif.Lemmas.C10Sums
/-!
# C09 — sag-and-slope assemblies: product rule and chain rule in a ring with a derivation

`compute_z_zprime_Qbfs`, `compute_z_zprime_Qcon`, the per-`m` terms of `compute_z_zprime_Q2d`, and the radial /
azimuthal assembly of `zernike_nm_der`.  Abstract statements hold in every commutative ring with a derivation;
the concrete ones are over `F[X]` with `d/dX` and are then evaluated at a number.
-/
set_option linter.unusedSectionVars false
set_option linter.unusedSimpArgs false
namespace C10L
open Model.C10 Model.C09

section Abstract
variable {R : Type} [CommRing R] [Div R]

/-- first-derivative row and the chain rule: `D α_i = x' · α'_i` when `D x = x'` -/
theorem D_nth_alphas (d : Der R) (G : Fam R) (hG : ConstFam d G) (x x' : R) (hx : d.D x = x')
    (l : List R) (hl : ∀ s ∈ l, d.D s = 0) (i : Nat) :
    d.D (nth (derTable G x l 0) i) = x' * nth (derTable G x l 1) i := by
  have h := derRow_chain d G hG x x' hx l hl 0
  have e : derTable G x l 1 = derRow G x 1 0 (alphas G x 0 l) := rfl
  have e0 : derTable G x l 0 = alphas G x 0 l := rfl
  rw [e, e0, ← nth_map d.D d.map_zero, h, nth_map (x' * ·) (by simp)]

/-- with a `D`-constant argument the whole sweep is `D`-constant -/
theorem D_nth_alphas_const (d : Der R) (G : Fam R) (hG : ConstFam d G) (x : R) (hx : d.D x = 0)
    (l : List R) (hl : ∀ s ∈ l, d.D s = 0) (i : Nat) : d.D (nth (derTable G x l 0) i) = 0 := by
  rw [D_nth_alphas d G hG x 0 hx l hl i]; ring

theorem qbfs_const (d : Der R) : ConstFam d (qbfsFam (K := R)) := by
  refine ⟨?_, ?_, ?_, ?_, ?_⟩
  · intro n; simpa [qbfsFam] using d.map_intCast (-4)
  · intro n; simpa [qbfsFam] using d.map_intCast 2
  · intro n; simpa [qbfsFam] using d.map_intCast 1
  · intro n
    by_cases h : n = 0
    · subst h; simpa [qbfsFam] using d.map_intCast 2
    · simp [qbfsFam, h, d.map_zero]
  · simpa [qbfsFam] using d.map_intCast 2

/-- **`compute_z_zprime_Qbfs`**: the returned slope is the derivative of the returned sag (product rule on
`u²(1-u²)·S(u²)`, chain rule through `x = u²`) -/
theorem zzQbfsB_slope (d : Der R) (u : R) (hu : d.D u = 1) (bs : List R) (hb : ∀ s ∈ bs, d.D s = 0) :
    (zzQbfsB bs u).2 = d.D (zzQbfsB bs u).1 := by
  have hx : d.D (u * u) = 2 * u := by rw [d.leibniz, hu]; ring
  have h0 := D_nth_alphas d qbfsFam (qbfs_const d) (u * u) (2 * u) hx bs hb 0
  have h1 := D_nth_alphas d qbfsFam (qbfs_const d) (u * u) (2 * u) hx bs hb 1
  have c2 : d.D (2 : R) = 0 := by simpa using d.map_natCast 2
  have c1 : d.D (1 : R) = 0 := d.map_one
  simp only [zzQbfsB, ofInt_eq]
  push_cast
  have hS : d.D (2 * (nth (derTable qbfsFam (u * u) bs 0) 0 + nth (derTable qbfsFam (u * u) bs 0) 1))
      = 2 * (2 * u * nth (derTable qbfsFam (u * u) bs 1) 0 + 2 * u * nth (derTable qbfsFam (u * u) bs 1) 1) := by
    rw [d.const_mul _ _ c2, d.map_add, h0, h1]
  have hpre : d.D (u * u * (1 - u * u)) = 2 * u * (1 - u * u) - u * u * (2 * u) := by
    rw [d.leibniz, d.map_sub, c1, hx]; ring
  rw [d.leibniz, hS, hpre]
  ring

/-- **`compute_z_zprime_Qcon`** (any family with constant coefficients in place of Jacobi `(0,4)`):
slope = derivative of `u⁴ · S(2u² - 1)` -/
theorem zzQconG_slope (d : Der R) (G : Fam R) (hG : ConstFam d G) (u : R) (hu : d.D u = 1)
    (cs : List R) (hc : ∀ s ∈ cs, d.D s = 0) :
    (zzQconG G cs u).2 = d.D (zzQconG G cs u).1 := by
  have c2 : d.D (2 : R) = 0 := by simpa using d.map_natCast 2
  have hx : d.D (2 * (u * u) - 1) = 4 * u := by
    rw [d.map_sub, d.leibniz, d.leibniz, hu, c2, d.map_one]; ring
  have h0 := D_nth_alphas d G hG (2 * (u * u) - 1) (4 * u) hx cs hc 0
  simp only [zzQconG, ofInt_eq]
  push_cast
  have hpre : d.D (u * u * (u * u)) = 4 * (u * u * u) := by
    rw [d.leibniz, d.leibniz, hu]; ring
  rw [d.leibniz, h0, hpre]
  ring

/-- `q2dRead` is a constant-coefficient linear read-out -/
theorem D_q2dRead (d : Der R) (hh : d.D (Num.ofFrac 1 2 : R) = 0) (h25 : d.D (Num.ofFrac 2 5 : R) = 0)
    (m : Nat) (l l' : List R) (x' : R) (hlen : l'.length = l.length)
    (h : ∀ i, d.D (nth l i) = x' * nth l' i) : d.D (q2dRead m l) = x' * q2dRead m l' := by
  unfold q2dRead
  rw [hlen]
  split
  · simp [d.map_zero]
  · split
    · rw [d.map_sub, d.const_mul _ _ hh, d.const_mul _ _ h25, h 0, h 3]; ring
    · rw [d.const_mul _ _ hh, h 0]; ring

theorem derTable_length (G : Fam R) (x : R) (s : List R) (j : Nat) : (derTable G x s j).length = s.length := by
  induction j with
  | zero => simp [derTable, alphas_length]
  | succ k ih =>
    rw [derTable]
    have : ∀ (l : List R) k', (derRow G x (k+1) k' l).length = l.length := by
      intro l
      induction l with
      | nil => intro k'; simp [derRow]
      | cons a t iht => intro k'; simp [derRow, iht]
    rw [this, ih]

/-- **one azimuthal order of `compute_z_zprime_Q2d`, radial slope**: for `m ≥ 1`, with `cos(mt), sin(mt)` held
fixed, the radial term is the `u`-derivative of `u^m (c·S_a(u²) + s·S_b(u²))` -/
theorem q2dTermB_dr (d : Der R) (hh : d.D (Num.ofFrac 1 2 : R) = 0) (h25 : d.D (Num.ofFrac 2 5 : R) = 0)
    (G : Fam R) (hG : ConstFam d G) (m : Nat) (hm : 1 ≤ m) (c s u : R)
    (hc : d.D c = 0) (hs : d.D s = 0) (hu : d.D u = 1) (da db : List R)
    (hda : ∀ t ∈ da, d.D t = 0) (hdb : ∀ t ∈ db, d.D t = 0) :
    (q2dTermB G m c s da db u).2.1 = d.D (q2dTermB G m c s da db u).1 := by
  have hx : d.D (u * u) = 2 * u := by rw [d.leibniz, hu]; ring
  have ha := D_q2dRead d hh h25 m (derTable G (u * u) da 0) (derTable G (u * u) da 1) (2 * u)
    (by rw [derTable_length, derTable_length]) (D_nth_alphas d G hG (u * u) (2 * u) hx da hda)
  have hb := D_q2dRead d hh h25 m (derTable G (u * u) db 0) (derTable G (u * u) db 1) (2 * u)
    (by rw [derTable_length, derTable_length]) (D_nth_alphas d G hG (u * u) (2 * u) hx db hdb)
  obtain ⟨k, rfl⟩ : ∃ k, m = k + 1 := ⟨m - 1, by omega⟩
  have hp : d.D (u ^ (k+1)) = ((k : R) + 1) * u ^ k := by rw [d.map_pow, hu]; ring
  simp only [q2dTermB, npow_eq, ofInt_eq, Nat.add_sub_cancel]
  have hk : d.D (c * q2dRead (k+1) (derTable G (u * u) da 0) + s * q2dRead (k+1) (derTable G (u * u) db 0))
      = c * (2 * u * q2dRead (k+1) (derTable G (u * u) da 1)) + s * (2 * u * q2dRead (k+1) (derTable G (u * u) db 1)) := by
    rw [d.map_add, d.const_mul _ _ hc, d.const_mul _ _ hs, ha, hb]
  rw [d.leibniz, hk, hp]
  push_cast
  ring

/-- **azimuthal slope**: for a derivation `∂/∂t` with `∂u = 0`, `∂cos(mt) = -m sin(mt)`, `∂sin(mt) = m cos(mt)` -/
theorem q2dTermB_dt (d : Der R) (hh : d.D (Num.ofFrac 1 2 : R) = 0) (h25 : d.D (Num.ofFrac 2 5 : R) = 0)
    (G : Fam R) (hG : ConstFam d G) (m : Nat) (c s u : R)
    (hc : d.D c = -(m : R) * s) (hs : d.D s = (m : R) * c) (hu : d.D u = 0) (da db : List R)
    (hda : ∀ t ∈ da, d.D t = 0) (hdb : ∀ t ∈ db, d.D t = 0) :
    (q2dTermB G m c s da db u).2.2 = d.D (q2dTermB G m c s da db u).1 := by
  have hx : d.D (u * u) = 0 := by rw [d.leibniz, hu]; ring
  have ha := D_q2dRead d hh h25 m (derTable G (u * u) da 0) (derTable G (u * u) da 1) 0
    (by rw [derTable_length, derTable_length]) (D_nth_alphas d G hG (u * u) 0 hx da hda)
  have hb := D_q2dRead d hh h25 m (derTable G (u * u) db 0) (derTable G (u * u) db 1) 0
    (by rw [derTable_length, derTable_length]) (D_nth_alphas d G hG (u * u) 0 hx db hdb)
  have hp : d.D (u ^ m) = 0 := by
    cases m with
    | zero => simpa using d.map_one
    | succ k => rw [d.map_pow, hu]; ring
  simp only [q2dTermB, npow_eq, ofInt_eq]
  have hk : d.D (c * q2dRead m (derTable G (u * u) da 0) + s * q2dRead m (derTable G (u * u) db 0))
      = -(m : R) * s * q2dRead m (derTable G (u * u) da 0) + (m : R) * c * q2dRead m (derTable G (u * u) db 0) := by
    rw [d.map_add, d.leibniz, d.leibniz, ha, hb, hc, hs]; ring
  rw [d.leibniz, hk, hp]
  push_cast
  ring

/-- the sag term of one azimuthal order in `q2dSagFrom` is the first component of `q2dTermB` over the changed bases -/
theorem sag_term_eq (fq gq : Nat → Nat → R) (cosm sinm : Nat → R) (u : R) (m : Nat) (a b : List R) :
    Num.npow u m * (cosm m * q2dRadial (fq m) (gq m) m a (u * u) + sinm m * q2dRadial (fq m) (gq m) m b (u * u))
      = (q2dTermB (q2dFam m) m (cosm m) (sinm m) (cobQ2d (fq m) (gq m) 0 a) (cobQ2d (fq m) (gq m) 0 b) u).1 := rfl

theorem q2dRadial_nil (f g : Nat → R) (m : Nat) (x : R) : q2dRadial f g m [] x = 0 := by
  simp [q2dRadial, clenshawQ2d, cobQ2d, alphas, q2dRead]

/-- **list level, radial and azimuthal**: the slopes `compute_z_zprime_Q2d` accumulates over all azimuthal orders
(`q2dSlopeFrom`) are the derivatives of the sag it accumulates (`q2dSagFrom`), for every combination of present / absent /
empty cosine and sine lists.  `Dr` is `∂/∂u` (`cos(mt)`, `sin(mt)` constant), `Dt` is `∂/∂t` (`u` constant). -/
theorem q2dSlopeFrom_correct (dr dt : Der R)
    (hh : dr.D (Num.ofFrac 1 2 : R) = 0) (h25 : dr.D (Num.ofFrac 2 5 : R) = 0)
    (hh' : dt.D (Num.ofFrac 1 2 : R) = 0) (h25' : dt.D (Num.ofFrac 2 5 : R) = 0)
    (fq gq : Nat → Nat → R) (cosm sinm : Nat → R) (u : R)
    (hG : ∀ m, ConstFam dr (q2dFam (K := R) m)) (hG' : ∀ m, ConstFam dt (q2dFam (K := R) m))
    (hu : dr.D u = 1) (hc : ∀ m, dr.D (cosm m) = 0) (hs : ∀ m, dr.D (sinm m) = 0)
    (hu' : dt.D u = 0) (hc' : ∀ m, dt.D (cosm m) = -(m : R) * sinm m) (hs' : ∀ m, dt.D (sinm m) = (m : R) * cosm m)
    (hcob : ∀ (m : Nat) (l : List R), ∀ t ∈ cobQ2d (fq m) (gq m) 0 l, dr.D t = 0 ∧ dt.D t = 0)
    (ams bms : List (List R)) : ∀ m, 1 ≤ m →
    (q2dSlopeFrom fq gq cosm sinm u m ams bms).1 = dr.D (q2dSagFrom fq gq cosm sinm u m ams bms) ∧
    (q2dSlopeFrom fq gq cosm sinm u m ams bms).2 = dt.D (q2dSagFrom fq gq cosm sinm u m ams bms) := by
  have term : ∀ (m : Nat), 1 ≤ m → ∀ a b : List R,
      (q2dSlopeTerm fq gq cosm sinm u m a b).1
          = dr.D (Num.npow u m * (cosm m * q2dRadial (fq m) (gq m) m a (u * u) + sinm m * q2dRadial (fq m) (gq m) m b (u * u))) ∧
      (q2dSlopeTerm fq gq cosm sinm u m a b).2
          = dt.D (Num.npow u m * (cosm m * q2dRadial (fq m) (gq m) m a (u * u) + sinm m * q2dRadial (fq m) (gq m) m b (u * u))) := by
    intro m hm a b
    rw [sag_term_eq]
    constructor
    · exact q2dTermB_dr dr hh h25 (q2dFam m) (hG m) m hm (cosm m) (sinm m) u (hc m) (hs m) hu _ _
        (fun t ht => (hcob m a t ht).1) (fun t ht => (hcob m b t ht).1)
    · exact q2dTermB_dt dt hh' h25' (q2dFam m) (hG' m) m (cosm m) (sinm m) u (hc' m) (hs' m) hu' _ _
        (fun t ht => (hcob m a t ht).2) (fun t ht => (hcob m b t ht).2)
  induction ams generalizing bms with
  | nil =>
    induction bms with
    | nil => intro m _; simp [q2dSlopeFrom, q2dSagFrom, dr.map_zero, dt.map_zero]
    | cons b bs ihb =>
      intro m hm
      obtain ⟨i1, i2⟩ := ihb (m+1) (by omega)
      obtain ⟨t1, t2⟩ := term m hm [] b
      simp only [q2dSlopeFrom, q2dSagFrom, i1, i2, t1, t2, q2dRadial_nil, dr.map_add, dt.map_add]
      constructor <;> (congr 2; simp)
  | cons a as iha =>
    cases bms with
    | nil =>
      intro m hm
      obtain ⟨i1, i2⟩ := iha [] (m+1) (by omega)
      obtain ⟨t1, t2⟩ := term m hm a []
      simp only [q2dSlopeFrom, q2dSagFrom, i1, i2, t1, t2, q2dRadial_nil, dr.map_add, dt.map_add]
      constructor <;> (congr 2; simp)
    | cons b bs =>
      intro m hm
      obtain ⟨i1, i2⟩ := iha bs (m+1) (by omega)
      obtain ⟨t1, t2⟩ := term m hm a b
      simp only [q2dSlopeFrom, q2dSagFrom, i1, i2, t1, t2, dr.map_add, dt.map_add]
      trivial

/-- **Zernike, radial assembly** (`zernike_nm_der`): with `v = R(2r² - 1)` whose `r`-derivative is `4r · R'`
(chain rule; `R'` is what `jacobi_der` returns), `d/dr [r^k · v] = v · k r^{k-1} + r^k · (4r R')` -/
theorem zernike_radial_rule (d : Der R) (r v jd : R) (hr : d.D r = 1) (hv : d.D v = 4 * r * jd) (k : Nat) :
    d.D (r ^ (k+1) * v) = v * (((k : R) + 1) * r ^ k) + r ^ (k+1) * (4 * r * jd) := by
  rw [d.leibniz, d.map_pow, hr, hv]; ring

/-- **Zernike, azimuthal assembly**: `∂/∂t [R · cos(mt)] = R · (-m sin(mt))`, `∂/∂t [R · sin(kt)] = R · k cos(kt)` -/
theorem zernike_azimuthal_rule (d : Der R) (rad c s : R) (k : R) (hrad : d.D rad = 0)
    (hc : d.D c = -k * s) (hs : d.D s = k * c) :
    d.D (rad * c) = rad * (-k * s) ∧ d.D (rad * s) = rad * (k * c) := by
  constructor
  · rw [d.const_mul _ _ hrad, hc]
  · rw [d.const_mul _ _ hrad, hs]
end Abstract

/-! ### transport to numbers -/
section Transport
variable {R S : Type} [CommRing R] [Div R] [CommRing S] [Div S] (φ : R →+* S)

theorem mapHom_qbfs : Fam.mapHom φ (qbfsFam (K := R)) = qbfsFam (K := S) := by
  unfold Fam.mapHom qbfsFam
  congr 1 <;> (try funext n) <;> first | (by_cases h : n = 0 <;> simp [h, map_ofNat]) | simp [map_ofNat]

theorem zzQbfsB_map (bs : List R) (u : R) :
    zzQbfsB (bs.map φ) (φ u) = (φ (zzQbfsB bs u).1, φ (zzQbfsB bs u).2) := by
  have h0 := derTable_map φ qbfsFam (u * u) bs 0
  have h1 := derTable_map φ qbfsFam (u * u) bs 1
  rw [mapHom_qbfs, map_mul] at h0 h1
  simp only [zzQbfsB, h0, h1, nth_map φ (map_zero φ), ofInt_eq]
  simp [map_ofNat]

theorem zzQconG_map (G : Fam R) (cs : List R) (u : R) :
    zzQconG (Fam.mapHom φ G) (cs.map φ) (φ u) = (φ (zzQconG G cs u).1, φ (zzQconG G cs u).2) := by
  have e : (Num.ofInt 2 * (φ u * φ u) - Num.ofInt 1 : S) = φ (Num.ofInt 2 * (u * u) - Num.ofInt 1) := by
    simp [map_ofNat]
  have h0 := derTable_map φ G (Num.ofInt 2 * (u * u) - Num.ofInt 1) cs 0
  have h1 := derTable_map φ G (Num.ofInt 2 * (u * u) - Num.ofInt 1) cs 1
  simp only [zzQconG, e, h0, h1, nth_map φ (map_zero φ)]
  simp [map_ofNat]
end Transport

section Concrete
open Polynomial
variable {F : Type} [Field F]

/-- the Qbfs sag `u²(1-u²)·2(α_0+α_1)` computed symbolically in the indeterminate -/
noncomputable def qbfsSagPoly (bs : List F) : F[X] := (zzQbfsB (bs.map C) X).1

/-- **`compute_z_zprime_Qbfs`, concrete**: at every point `u₀` and for every (changed-basis) coefficient list, the
pair returned is (the sag polynomial at `u₀`, its derivative at `u₀`) -/
theorem zzQbfsB_eval (bs : List F) (u₀ : F) :
    (zzQbfsB bs u₀).1 = eval u₀ (qbfsSagPoly bs) ∧ (zzQbfsB bs u₀).2 = eval u₀ (derivative (qbfsSagPoly bs)) := by
  have hm := zzQbfsB_map (evalRingHom u₀) (bs.map C) X
  rw [List.map_map] at hm
  have hid : (⇑(evalRingHom u₀) ∘ ⇑(C : F →+* F[X])) = id := by funext a; simp
  rw [hid, List.map_id] at hm
  simp only [coe_evalRingHom, eval_X] at hm
  have hs := zzQbfsB_slope (R := F[X]) polyDer X (by simp [polyDer]) (bs.map C)
    (by intro t ht; obtain ⟨a, _, rfl⟩ := List.mem_map.mp ht; simp [polyDer])
  constructor
  · rw [hm]; rfl
  · rw [hm]; simp only [qbfsSagPoly]; rw [hs]; rfl

/-- the sag polynomial is `u²(1-u²) Σ b_n P_n(u²)` -/
theorem zzQbfsB_sag {R : Type} [CommRing R] [Div R] (bs : List R) (u : R) :
    (zzQbfsB bs u).1 = (u * u * (1 - u * u)) * wsum (qbfsFam.p (u * u)) 0 bs := by
  rw [← clenshaw_general]
  have : clenshawVal qbfsFam (alphas qbfsFam (u * u) 0 bs)
      = 2 * (nth (alphas qbfsFam (u * u) 0 bs) 0 + nth (alphas qbfsFam (u * u) 0 bs) 1) := by
    match alphas qbfsFam (u * u) 0 bs with
    | [] => simp [clenshawVal]
    | [a0] => simp [clenshawVal, esum, qbfsFam]; ring
    | a0 :: a1 :: rest =>
      have qe : ∀ n, (qbfsFam (K := R)).e n = if n = 0 then 2 else 0 := by intro n; simp [qbfsFam]
      have ez : ∀ (l : List R) k, esum (qbfsFam (K := R)) (k+1) l = 0 := by
        intro l
        induction l with
        | nil => intro k; simp [esum]
        | cons t r ih => intro k; simp only [esum, ih, qe]; simp
      simp only [clenshawVal, esum, ez, nth_zero, nth_succ]
      simp [qbfsFam]; ring
  rw [this]
  simp only [zzQbfsB, derTable, ofInt_eq]
  push_cast; ring

/-- the Qcon-type sag `u⁴ · α_0(2u²-1)` computed symbolically in the indeterminate -/
noncomputable def qconSagPoly (G : Fam F) (cs : List F) : F[X] := (zzQconG (liftP G) (cs.map C) X).1

/-- **`compute_z_zprime_Qcon`, concrete** (any family over `F`; the source uses Jacobi `(0,4)`) -/
theorem zzQconG_eval (G : Fam F) (cs : List F) (u₀ : F) :
    (zzQconG G cs u₀).1 = eval u₀ (qconSagPoly G cs) ∧ (zzQconG G cs u₀).2 = eval u₀ (derivative (qconSagPoly G cs)) := by
  have hm := zzQconG_map (evalRingHom u₀) (liftP G) (cs.map C) X
  rw [mapHom_eval_liftP, List.map_map] at hm
  have hid : (⇑(evalRingHom u₀) ∘ ⇑(C : F →+* F[X])) = id := by funext a; simp
  rw [hid, List.map_id] at hm
  simp only [coe_evalRingHom, eval_X] at hm
  have hs := zzQconG_slope (R := F[X]) polyDer (liftP G) (liftP_const G) X (by simp [polyDer]) (cs.map C)
    (by intro t ht; obtain ⟨a, _, rfl⟩ := List.mem_map.mp ht; simp [polyDer])
  constructor
  · rw [hm]; rfl
  · rw [hm]; simp only [qconSagPoly]; rw [hs]; rfl

/-- for a family with `p_0 = 1` and no added constants (Jacobi) the sag is `u⁴ Σ c_n p_n(2u² - 1)` -/
theorem zzQconG_sag {R : Type} [CommRing R] [Div R] (G : Fam R) (he : ∀ n, G.e n = 0) (hp : G.p0 = 1)
    (cs : List R) (u : R) :
    (zzQconG G cs u).1 = (u * u * (u * u)) * wsum (G.p (2 * (u * u) - 1)) 0 cs := by
  rw [← clenshaw_general]
  simp only [zzQconG, derTable, ofInt_eq]
  push_cast
  cases h : alphas G (2 * (u * u) - 1) 0 cs with
  | nil => simp [clenshawVal]
  | cons a t => simp [clenshawVal, esum_zero G he, hp]; ring
end Concrete
end C10L
