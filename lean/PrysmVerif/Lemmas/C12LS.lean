import Mathlib.Algebra.BigOperators.Ring.Finset
import Mathlib.Algebra.Field.Basic
import Mathlib.Tactic.Ring
import Mathlib.Tactic.LinearCombination
import Mathlib.Algebra.Order.Field.Basic
import Mathlib.Algebra.Order.BigOperators.Ring.Finset
open Finset
/-! # C12 — least-squares removal for a design with ANY number of columns (normal equations over a field) -/

namespace C12L
variable {K : Type} [Field K] {m k : Nat}

/-- normal equations of the least-squares fit of the columns of `A` to `z` -/
def NormalEq (A : Fin m → Fin k → K) (z : Fin m → K) (c : Fin k → K) : Prop :=
  ∀ j, ∑ i, A i j * (z i - ∑ l, A i l * c l) = 0

/-- the data after the fitted contribution of the columns in `S` has been subtracted -/
def removeCols (A : Fin m → Fin k → K) (z : Fin m → K) (c : Fin k → K) (S : Finset (Fin k)) : Fin m → K :=
  fun i => z i - ∑ l ∈ S, A i l * c l

theorem resid_eq (A : Fin m → Fin k → K) (z : Fin m → K) (c : Fin k → K) (S : Finset (Fin k)) (i : Fin m) :
    removeCols A z c S i - ∑ l, A i l * (if l ∈ S then 0 else c l) = z i - ∑ l, A i l * c l := by
  have h : ∑ l, A i l * c l = ∑ l ∈ S, A i l * c l + ∑ l, A i l * (if l ∈ S then 0 else c l) := by
    rw [← Finset.sum_filter_add_sum_filter_not univ (· ∈ S)]
    congr 1
    · apply Finset.sum_congr
      · ext l; simp
      · intros; rfl
    · rw [← Finset.sum_filter_add_sum_filter_not univ (· ∈ S) (fun l => A i l * (if l ∈ S then 0 else c l))]
      have h0 : ∑ l ∈ univ.filter (· ∈ S), A i l * (if l ∈ S then 0 else c l) = 0 := by
        apply Finset.sum_eq_zero; intro l hl; simp at hl; simp [hl]
      rw [h0, zero_add]
      apply Finset.sum_congr rfl; intro l hl; simp at hl; simp [hl]
  simp only [removeCols]; rw [h]; ring

theorem removed_solves (A : Fin m → Fin k → K) (z : Fin m → K) (c : Fin k → K) (S : Finset (Fin k))
    (h : NormalEq A z c) : NormalEq A (removeCols A z c S) (fun l => if l ∈ S then 0 else c l) := by
  intro j
  have := h j
  simp only [resid_eq]
  exact this

theorem refit_zero (A : Fin m → Fin k → K) (z : Fin m → K) (c c' : Fin k → K) (S : Finset (Fin k))
    (hind : ∀ d : Fin k → K, (∀ j, ∑ i, A i j * ∑ l, A i l * d l = 0) → d = 0)
    (h : NormalEq A z c) (h' : NormalEq A (removeCols A z c S) c') : ∀ l ∈ S, c' l = 0 := by
  have h2 := removed_solves A z c S h
  have hd : (fun l => c' l - (if l ∈ S then 0 else c l)) = 0 := by
    apply hind
    intro j
    have e1 := h' j
    have e2 := h2 j
    have : ∑ i, A i j * ∑ l, A i l * (c' l - (if l ∈ S then 0 else c l)) =
        ∑ i, A i j * (removeCols A z c S i - ∑ l, A i l * (if l ∈ S then 0 else c l)) -
        ∑ i, A i j * (removeCols A z c S i - ∑ l, A i l * c' l) := by
      rw [← Finset.sum_sub_distrib]
      apply Finset.sum_congr rfl; intro i _
      simp only [mul_sub, Finset.sum_sub_distrib]; ring
    rw [this, e1, e2, sub_zero]
  intro l hl
  have := congrFun hd l
  simp [hl] at this
  exact this
/-- after ALL fitted columns have been removed, the zero vector solves the normal equations of the re-fit (any rank) -/
theorem full_removal_zero_solves (A : Fin m → Fin k → K) (z : Fin m → K) (c : Fin k → K)
    (h : NormalEq A z c) : NormalEq A (removeCols A z c univ) (fun _ => 0) := by
  have := removed_solves A z c univ h
  simpa using this

/-- the zero vector is THE minimum-norm vector: what `lstsq` returns among the solutions when 0 is one of them -/
theorem zero_is_min_norm [LinearOrder K] [IsStrictOrderedRing K] (d : Fin k → K) :
    ∑ l : Fin k, ((fun _ => (0 : K)) l) ^ 2 ≤ ∑ l, d l ^ 2 ∧ (∑ l, d l ^ 2 = 0 → d = fun _ => 0) := by
  constructor
  · simp only [ne_eq, OfNat.ofNat_ne_zero, not_false_eq_true, zero_pow, sum_const_zero]
    exact sum_nonneg fun l _ => sq_nonneg (d l)
  · intro h
    funext l
    have := (sum_eq_zero_iff_of_nonneg (fun l _ => sq_nonneg (d l))).mp h l (mem_univ l)
    exact pow_eq_zero_iff (two_ne_zero) |>.mp this
end C12L
