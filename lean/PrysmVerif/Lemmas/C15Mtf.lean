import PrysmVerif.Lemmas.C15Ops
import Mathlib.Analysis.Complex.Basic
import Mathlib.Analysis.SpecialFunctions.Complex.Arg
import Mathlib.RingTheory.RootsOfUnity.Complex
import Mathlib.GroupTheory.OrderOfElement
/-!
# C15 — MTF / PTF / OTF of a real PSF over `ℂ`

`cOps E c` is `mathOps` with the real part, modulus and argument of `ℂ`.  The kernel `E` is any DFT
kernel over `ℂ`; that its values have modulus one and that conjugation inverts them is *derived*
(every value of a bicharacter of a finite group is a root of unity).
-/
set_option linter.unusedSectionVars false
set_option linter.unusedSimpArgs false

namespace C15L
open Finset Model.C15 Complex

variable {G : Type} [AddCommGroup G] [Fintype G] [DecidableEq G]

theorem Kernel.nsmul_right {K : Type} [Field K] (E : Kernel G K) (k a : G) (n : ℕ) :
    E.χ k (n • a) = E.χ k a ^ n := by
  induction n with
  | zero => simp [E.zero_right]
  | succ n ih => rw [succ_nsmul, E.add_right, ih, pow_succ]

theorem Kernel.pow_card {K : Type} [Field K] (E : Kernel G K) (k a : G) : E.χ k a ^ Fintype.card G = 1 := by
  rw [← E.nsmul_right, card_nsmul_eq_zero, E.zero_right]

theorem Kernel.norm_eq_one (E : Kernel G ℂ) (k a : G) : ‖E.χ k a‖ = 1 :=
  Complex.norm_eq_one_of_pow_eq_one (E.pow_card k a) Fintype.card_ne_zero

theorem Kernel.conj_eq (E : Kernel G ℂ) (k a : G) : (starRingEnd ℂ) (E.χ k a) = E.χ (-k) a := by
  rw [E.neg_left, Complex.inv_eq_conj (E.norm_eq_one k a)]

/-- the operations over `ℂ` -/
noncomputable def cOps (E : Kernel G ℂ) (c : G) : FOps (G → ℂ) G :=
  mathOps E c (fun z => (z.re : ℂ)) (fun z => (‖z‖ : ℂ)) (fun z => (arg z : ℂ))

theorem cOps_re (r : ℝ) : (fun z : ℂ => (z.re : ℂ)) (Complex.ofRealHom r) = Complex.ofRealHom r := by simp

variable (E : Kernel G ℂ) (c : G)

/-- real array as a complex array -/
noncomputable abbrev embR (p : G → ℝ) : G → ℂ := emb Complex.ofRealHom p

theorem transformPsf_apply (ψ : G → ℂ) (k : G) :
    transformPsf (cOps E c) ψ k = ∑ a, ψ (a + c) * E.χ (k - c) a := by
  simp only [transformPsf, cOps, mathOps, shiftBy, fft, sub_neg_eq_add]

/-- the sample at the reference index is the total of the PSF -/
theorem transformPsf_centre (p : G → ℝ) : transformPsf (cOps E c) (embR p) c = ((∑ a, p a : ℝ) : ℂ) := by
  rw [transformPsf_apply, sub_self]
  simp only [E.zero_left, mul_one, emb, Complex.ofRealHom_eq_coe, Complex.ofReal_sum]
  exact Equiv.sum_comp (Equiv.addRight c) (fun a => ((p a : ℝ) : ℂ))

theorem norm_transformPsf_le (p : G → ℝ) (hp : ∀ a, 0 ≤ p a) (k : G) :
    ‖transformPsf (cOps E c) (embR p) k‖ ≤ ∑ a, p a := by
  rw [transformPsf_apply]
  refine (norm_sum_le _ _).trans ?_
  rw [← Equiv.sum_comp (Equiv.addRight c) p]
  refine Finset.sum_le_sum fun a _ => ?_
  rw [norm_mul, E.norm_eq_one, mul_one]
  simp only [emb, Complex.ofRealHom_eq_coe, Complex.norm_real, Real.norm_eq_abs, Equiv.coe_addRight, abs_of_nonneg (hp _), le_refl]

/-- Hermitian symmetry of the transform of a real array about the reference sample -/
theorem transformPsf_conj (p : G → ℝ) (d : G) :
    transformPsf (cOps E c) (embR p) (c - d) = (starRingEnd ℂ) (transformPsf (cOps E c) (embR p) (c + d)) := by
  rw [transformPsf_apply, transformPsf_apply, map_sum]
  refine Finset.sum_congr rfl fun a _ => ?_
  rw [map_mul, E.conj_eq]
  simp only [emb, Complex.ofRealHom_eq_coe, Complex.conj_ofReal]
  congr 2; abel

/-- MTF sample `k` as a real number -/
theorem mtf_apply (p : G → ℝ) (k : G) :
    mtf (cOps E c) (embR p) c k =
      ((‖transformPsf (cOps E c) (embR p) k‖ / ‖transformPsf (cOps E c) (embR p) c‖ : ℝ) : ℂ) := by
  simp only [mtf, cOps, mathOps, Complex.ofReal_div]

theorem otf_apply (p : G → ℝ) (k : G) :
    otf (cOps E c) (embR p) c k = transformPsf (cOps E c) (embR p) k / transformPsf (cOps E c) (embR p) c := by
  simp only [otf, cOps, mathOps]

theorem ptf_apply (p : G → ℝ) (k : G) :
    ptf (cOps E c) (embR p) c k = ((arg (otf (cOps E c) (embR p) c k) : ℝ) : ℂ) := by
  simp only [ptf, otf, cOps, mathOps]

/-- MTF is 1 at zero frequency (reference sample `c`) whenever the PSF has non-zero total -/
theorem mtf_dc (p : G → ℝ) (hs : ∑ a, p a ≠ 0) : mtf (cOps E c) (embR p) c c = 1 := by
  rw [mtf_apply, transformPsf_centre]
  have : ‖((∑ a, p a : ℝ) : ℂ)‖ ≠ 0 := by rw [norm_ne_zero_iff]; exact_mod_cast hs
  rw [div_self this]; simp

/-- MTF of a non-negative PSF lies in `[0, 1]` at every frequency -/
theorem mtf_range (p : G → ℝ) (hp : ∀ a, 0 ≤ p a) (hs : ∑ a, p a ≠ 0) (k : G) :
    ∃ r : ℝ, mtf (cOps E c) (embR p) c k = (r : ℂ) ∧ 0 ≤ r ∧ r ≤ 1 := by
  refine ⟨_, mtf_apply E c p k, by positivity, ?_⟩
  have hpos : 0 < ∑ a, p a := lt_of_le_of_ne (Finset.sum_nonneg fun a _ => hp a) (Ne.symm hs)
  rw [transformPsf_centre, Complex.norm_real, Real.norm_eq_abs, abs_of_pos hpos, div_le_one hpos]
  exact norm_transformPsf_le E c p hp k

/-- MTF of a real PSF is point-symmetric about the zero-frequency sample -/
theorem mtf_symm (p : G → ℝ) (d : G) :
    mtf (cOps E c) (embR p) c (c + d) = mtf (cOps E c) (embR p) c (c - d) := by
  rw [mtf_apply, mtf_apply, transformPsf_conj E c p d, RCLike.norm_conj]

/-- PTF of a real PSF is point-antisymmetric wherever the OTF is not a negative real number -/
theorem otf_symm (p : G → ℝ) (d : G) :
    otf (cOps E c) (embR p) c (c - d) = (starRingEnd ℂ) (otf (cOps E c) (embR p) c (c + d)) := by
  rw [otf_apply, otf_apply, transformPsf_conj E c p d, map_div₀]
  congr 1
  rw [transformPsf_centre, Complex.conj_ofReal]

/-- `MTF = |OTF|` -/
theorem mtf_eq_norm_otf (p : G → ℝ) (k : G) :
    mtf (cOps E c) (embR p) c k = ((‖otf (cOps E c) (embR p) c k‖ : ℝ) : ℂ) := by
  rw [mtf_apply, otf_apply, norm_div]

/-- `OTF = MTF · exp(i·PTF)` -/
theorem otf_eq_mtf_mul_exp_ptf (p : G → ℝ) (k : G) :
    otf (cOps E c) (embR p) c k
      = mtf (cOps E c) (embR p) c k * Complex.exp (ptf (cOps E c) (embR p) c k * Complex.I) := by
  rw [mtf_eq_norm_otf, ptf_apply, Complex.norm_mul_exp_arg_mul_I]

/-- OTF is 1 at zero frequency -/
theorem otf_dc (p : G → ℝ) (hs : ∑ a, p a ≠ 0) : otf (cOps E c) (embR p) c c = 1 := by
  rw [otf_apply, transformPsf_centre]
  exact div_self (by exact_mod_cast hs)

end C15L
