import PrysmVerif.Lemmas.C20Mueller
import Mathlib.Tactic.Linarith
import Mathlib.Tactic.Positivity
import Mathlib.LinearAlgebra.Matrix.Determinant.Basic
import Mathlib.Analysis.Complex.Basic
/-!
# C20 — the Mueller matrix of every Jones matrix preserves the closed Stokes cone (helper lemmas)

Route: a real Stokes vector `S` is `U · vec C` for its Hermitian coherency matrix `C`; `U (J̄ ⊗ J) U⁻¹` acts as `C ↦ J̄ C Jᵀ`;
`S₀² - |S⃗|² = 4 det C` (so it is multiplied by `|det J|²`) and `S₀ = tr C`, whose image is a sum of two positive
semidefinite forms.
-/
set_option linter.unusedTactic false
set_option linter.unreachableTactic false
set_option linter.unusedVariables false
set_option linter.unusedSimpArgs false
set_option linter.unnecessarySeqFocus false
open Model.C20 C17Num Matrix Kronecker Complex C20Mueller
namespace C20Cone

/-- a 2×2 matrix as a column indexed like the Kronecker product -/
def vec (X : Matrix (Fin 2) (Fin 2) ℂ) : Matrix (Fin 2 × Fin 2) (Fin 1 × Fin 1) ℂ := fun jk _ => X jk.1 jk.2

theorem kron_vec (J X : Matrix (Fin 2) (Fin 2) ℂ) : (cj J ⊗ₖ J) * vec X = vec (cj J * X * Jᵀ) := by
  ext ⟨j, k⟩ ⟨a, b⟩
  fin_cases j <;> fin_cases k <;>
    simp [vec, Matrix.mul_apply, Fintype.sum_prod_type, Fin.sum_univ_two, Matrix.kroneckerMap_apply, Matrix.transpose_apply] <;> ring

theorem Umat_vec (X : Matrix (Fin 2) (Fin 2) ℂ) (ab : Fin 1 × Fin 1) :
    (Umat U0 * vec X) 0 ab = X 0 0 + X 1 1 ∧ (Umat U0 * vec X) 1 ab = X 0 0 - X 1 1 ∧
    (Umat U0 * vec X) 2 ab = X 0 1 + X 1 0 ∧ (Umat U0 * vec X) 3 ab = I * (X 0 1 - X 1 0) := by
  refine ⟨?_, ?_, ?_, ?_⟩ <;>
    simp [vec, Matrix.mul_apply, Fintype.sum_prod_type, Fin.sum_univ_two, Umat, Model.C20.muellerU, ofInt_eq] <;> ring

/-- coherency matrix of a real Stokes vector -/
noncomputable def coh (S : Fin 4 → ℝ) : Matrix (Fin 2) (Fin 2) ℂ :=
  !![((S 0 + S 1) / 2 : ℝ), ((S 2 : ℂ) - I * S 3) / 2; ((S 2 : ℂ) + I * S 3) / 2, ((S 0 - S 1) / 2 : ℝ)]

def col (S : Fin 4 → ℝ) : Matrix (Fin 4) (Fin 1 × Fin 1) ℂ := fun r _ => (S r : ℂ)

theorem Umat_vec_coh (S : Fin 4 → ℝ) : Umat U0 * vec (coh S) = col S := by
  ext r ab
  obtain ⟨h0, h1, h2, h3⟩ := Umat_vec (coh S) ab
  fin_cases r
  · simp only [Fin.zero_eta]; rw [h0]; simp [coh, col]; ring
  · simp only [Fin.mk_one]; rw [h1]; simp [coh, col]; ring
  · show (Umat U0 * vec (coh S)) 2 ab = _; rw [h2]; simp [coh, col]; ring
  · show (Umat U0 * vec (coh S)) 3 ab = _; rw [h3]; simp [coh, col]; ring_nf; simp [I_sq]

theorem muellerC_col (J : Matrix (Fin 2) (Fin 2) ℂ) (S : Fin 4 → ℝ) :
    muellerC J * col S = Umat U0 * vec (cj J * coh S * Jᵀ) := by
  rw [← Umat_vec_coh, ← kron_vec]
  simp only [muellerCU, Matrix.mul_assoc]
  rw [← Matrix.mul_assoc (Vmat U0), V_mul_U, Matrix.one_mul]

theorem muellerC_col_real (J : Matrix (Fin 2) (Fin 2) ℂ) (S : Fin 4 → ℝ) (r : Fin 4) (ab : Fin 1 × Fin 1) :
    (muellerC J * col S) r ab = (((mueller J).mulVec S r : ℝ) : ℂ) := by
  rw [muellerC_eq_ofReal]
  simp [Matrix.mul_apply, Matrix.mulVec, dotProduct, col, Fin.sum_univ_four]

/-- a positive semidefinite 2×2 Hermitian form is non-negative on every complex pair `(u, v)` -/
theorem psd_form (a b : ℝ) (z u v : ℂ) (ha : 0 ≤ a) (hb : 0 ≤ b) (hz : normSq z ≤ a * b) :
    0 ≤ a * normSq u + b * normSq v + 2 * (starRingEnd ℂ u * v * starRingEnd ℂ z).re := by
  set w := starRingEnd ℂ u * v * starRingEnd ℂ z with hw
  have hn : ‖w‖ = ‖u‖ * ‖v‖ * ‖z‖ := by simp [hw, norm_mul]
  have hre : -‖w‖ ≤ w.re := by have := Complex.abs_re_le_norm w; exact (abs_le.mp this).1
  have hx := norm_nonneg u; have hy := norm_nonneg v; have ht := norm_nonneg z
  have e1 : normSq u = ‖u‖ ^ 2 := Complex.normSq_eq_norm_sq u
  have e2 : normSq v = ‖v‖ ^ 2 := Complex.normSq_eq_norm_sq v
  have e3 : normSq z = ‖z‖ ^ 2 := Complex.normSq_eq_norm_sq z
  rw [e3] at hz
  rw [e1, e2]
  have key : 2 * (‖u‖ * ‖v‖ * ‖z‖) ≤ a * ‖u‖ ^ 2 + b * ‖v‖ ^ 2 := by
    have hA : 0 ≤ a * ‖u‖ ^ 2 + b * ‖v‖ ^ 2 := by positivity
    have hsq : (2 * (‖u‖ * ‖v‖ * ‖z‖)) ^ 2 ≤ (a * ‖u‖ ^ 2 + b * ‖v‖ ^ 2) ^ 2 := by
      nlinarith [sq_nonneg (a * ‖u‖ ^ 2 - b * ‖v‖ ^ 2), mul_nonneg (mul_nonneg (sq_nonneg ‖u‖) (sq_nonneg ‖v‖)) (sub_nonneg.2 hz)]
    exact abs_le_of_sq_le_sq' hsq hA |>.2
  linarith

/-- `stokes_cone_full`: the Mueller matrix of EVERY complex Jones matrix maps the closed Stokes cone `S₀ ≥ 0`, `S₁² + S₂² + S₃² ≤ S₀²`
(fully AND partially polarised light) into itself; moreover `S₀'² - |S⃗'|² = |det J|² (S₀² - |S⃗|²)` (Lorentz property) -/
theorem stokes_cone (J : Matrix (Fin 2) (Fin 2) ℂ) (S : Fin 4 → ℝ) (h0 : 0 ≤ S 0) (hc : S 1 ^ 2 + S 2 ^ 2 + S 3 ^ 2 ≤ S 0 ^ 2) :
    let S' := (mueller J).mulVec S
    0 ≤ S' 0 ∧ S' 1 ^ 2 + S' 2 ^ 2 + S' 3 ^ 2 ≤ S' 0 ^ 2 ∧
    S' 0 ^ 2 - (S' 1 ^ 2 + S' 2 ^ 2 + S' 3 ^ 2) = normSq J.det * (S 0 ^ 2 - (S 1 ^ 2 + S 2 ^ 2 + S 3 ^ 2)) := by
  intro S'
  set X := cj J * coh S * Jᵀ with hX
  have hr : ∀ r : Fin 4, ((S' r : ℝ) : ℂ) = (Umat U0 * vec X) r (0, 0) := by
    intro r; rw [← muellerC_col_real J S r (0, 0), muellerC_col]
  obtain ⟨u0, u1, u2, u3⟩ := Umat_vec X (0, 0)
  -- Lorentz identity through the determinant
  have hdet : X.det = ((normSq J.det * ((S 0 ^ 2 - (S 1 ^ 2 + S 2 ^ 2 + S 3 ^ 2)) / 4) : ℝ) : ℂ) := by
    rw [hX, Matrix.det_mul, Matrix.det_mul, Matrix.det_transpose]
    have d1 : (cj J).det = starRingEnd ℂ J.det := by
      simp [cj, Matrix.det_fin_two, map_sub, map_mul]
    have d2 : (coh S).det = (((S 0 ^ 2 - (S 1 ^ 2 + S 2 ^ 2 + S 3 ^ 2)) / 4 : ℝ) : ℂ) := by
      simp [coh, Matrix.det_fin_two]; ring_nf; simp [I_sq]; ring
    rw [d1, d2, mul_right_comm, ← Complex.normSq_eq_conj_mul_self]; push_cast; ring
  have hQ : ((S' 0 ^ 2 - (S' 1 ^ 2 + S' 2 ^ 2 + S' 3 ^ 2) : ℝ) : ℂ) = 4 * X.det := by
    push_cast; rw [hr 0, hr 1, hr 2, hr 3, u0, u1, u2, u3, Matrix.det_fin_two]; ring_nf; simp [I_sq]; ring
  have hL : S' 0 ^ 2 - (S' 1 ^ 2 + S' 2 ^ 2 + S' 3 ^ 2) = normSq J.det * (S 0 ^ 2 - (S 1 ^ 2 + S 2 ^ 2 + S 3 ^ 2)) := by
    apply Complex.ofReal_injective; rw [hQ, hdet]; push_cast; ring
  -- S'₀ = X₀₀ + X₁₁, each a PSD form
  have hdiag : ∀ j : Fin 2, X j j = ((((S 0 + S 1) / 2) * normSq (J j 0) + ((S 0 - S 1) / 2) * normSq (J j 1) +
      (((J j 0).re * (J j 1).re + (J j 0).im * (J j 1).im) * S 2 + ((J j 0).re * (J j 1).im - (J j 0).im * (J j 1).re) * S 3) : ℝ) : ℂ) := by
    intro j
    apply Complex.ext
    · simp [hX, cj, coh, Matrix.mul_apply, Fin.sum_univ_two, Matrix.transpose_apply, Complex.normSq_apply]; ring
    · simp [hX, cj, coh, Matrix.mul_apply, Fin.sum_univ_two, Matrix.transpose_apply, Complex.normSq_apply]; ring
  have cross : ∀ u v : ℂ, 2 * (starRingEnd ℂ u * v * starRingEnd ℂ (⟨S 2 / 2, S 3 / 2⟩ : ℂ)).re =
      (u.re * v.re + u.im * v.im) * S 2 + (u.re * v.im - u.im * v.re) * S 3 := by
    intro u v; simp [Complex.mul_re, Complex.mul_im]; ring
  have hz : normSq (⟨S 2 / 2, S 3 / 2⟩ : ℂ) ≤ ((S 0 + S 1) / 2) * ((S 0 - S 1) / 2) := by
    have : normSq (⟨S 2 / 2, S 3 / 2⟩ : ℂ) = (S 2 ^ 2 + S 3 ^ 2) / 4 := by
      simp [Complex.normSq_apply]; ring
    rw [this]; nlinarith
  have hp : 0 ≤ (S 0 + S 1) / 2 := by nlinarith [sq_nonneg (S 2), sq_nonneg (S 3), abs_le_of_sq_le_sq' (by nlinarith [sq_nonneg (S 2), sq_nonneg (S 3)] : S 1 ^ 2 ≤ S 0 ^ 2) h0]
  have hq : 0 ≤ (S 0 - S 1) / 2 := by nlinarith [sq_nonneg (S 2), sq_nonneg (S 3), abs_le_of_sq_le_sq' (by nlinarith [sq_nonneg (S 2), sq_nonneg (S 3)] : S 1 ^ 2 ≤ S 0 ^ 2) h0]
  have h00 : 0 ≤ S' 0 := by
    have e : ((S' 0 : ℝ) : ℂ) = X 0 0 + X 1 1 := by rw [hr 0, u0]
    rw [hdiag 0, hdiag 1, ← Complex.ofReal_add] at e
    have := Complex.ofReal_injective e
    rw [this]
    have f0 := psd_form _ _ _ (J 0 0) (J 0 1) hp hq hz
    have f1 := psd_form _ _ _ (J 1 0) (J 1 1) hp hq hz
    rw [cross] at f0 f1
    linarith
  refine ⟨h00, ?_, hL⟩
  have : 0 ≤ normSq J.det * (S 0 ^ 2 - (S 1 ^ 2 + S 2 ^ 2 + S 3 ^ 2)) := mul_nonneg (normSq_nonneg _) (by linarith)
  linarith
end C20Cone
