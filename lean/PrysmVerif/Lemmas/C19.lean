import PrysmVerif.Model.C19
import Mathlib.Tactic.Ring
import Mathlib.Tactic.FieldSimp
import Mathlib.Tactic.Linarith
import Mathlib.Tactic.LinearCombination
import Mathlib.Algebra.Order.Field.Basic
/-! # helper lemmas for C19: vectors over an ordered field -/
namespace Lemmas.C19
open Model.C19

theorem V3.ext' {K : Type} {a b : V3 K} (hx : a.x = b.x) (hy : a.y = b.y) (hz : a.z = b.z) : a = b := by
  cases a; cases b; simp_all

theorem M3.ext' {K : Type} {a b : M3 K} (h0 : a.r0 = b.r0) (h1 : a.r1 = b.r1) (h2 : a.r2 = b.r2) : a = b := by
  cases a; cases b; simp_all

variable {K : Type} [Field K] [LinearOrder K] [IsStrictOrderedRing K]

/-- a non-zero vector has positive squared length -/
theorem normSq_pos {r : V3 K} (h : r ≠ ⟨0, 0, 0⟩) : 0 < V3.dot r r := by
  rcases r with ⟨a, b, c⟩
  simp only [V3.dot]
  by_contra hn
  have h1 : a * a + b * b + c * c ≤ 0 := not_lt.mp hn
  have ha : a = 0 := by nlinarith [mul_self_nonneg a, mul_self_nonneg b, mul_self_nonneg c]
  have hb : b = 0 := by nlinarith [mul_self_nonneg a, mul_self_nonneg b, mul_self_nonneg c]
  have hc : c = 0 := by nlinarith [mul_self_nonneg a, mul_self_nonneg b, mul_self_nonneg c]
  exact h (by rw [ha, hb, hc])

/-- Cauchy–Schwarz in the form used for "no total internal reflection ⇒ radicand ≥ 0" -/
theorem dot_sq_le (a b : V3 K) : V3.dot a b * V3.dot a b ≤ V3.dot a a * V3.dot b b := by
  rcases a with ⟨a1, a2, a3⟩; rcases b with ⟨b1, b2, b3⟩
  simp only [V3.dot]
  nlinarith [mul_self_nonneg (a1 * b2 - a2 * b1), mul_self_nonneg (a1 * b3 - a3 * b1),
    mul_self_nonneg (a2 * b3 - a3 * b2)]

/-- radicand of the model's `refract`: `ρ − μ²(ρ − (r·S)²)`, `ρ = r·r`, `μ = n/n'` -/
def radicand (n n' : K) (S r : V3 K) : K :=
  V3.dot r r - n / n' * (n / n') * (V3.dot r r - V3.dot r S * V3.dot r S)

/-- the algebra behind Snell's law in vector form, with `σ² = radicand`, for a normal of any non-zero length -/
theorem refract_core (n n' σ : K) (S r : V3 K) (hr : r ≠ ⟨0, 0, 0⟩) (hS : V3.dot S S = 1) (hn' : n' ≠ 0)
    (hσ : σ * σ = radicand n n' S r) :
    let S' := V3.add (V3.smul (σ / V3.dot r r) r) (V3.smul (n / n') (V3.sub S (V3.smul (V3.dot r S / V3.dot r r) r)))
    V3.dot S' S' = 1 ∧ V3.smul n' (V3.cross S' r) = V3.smul n (V3.cross S r) ∧ V3.dot S' r = σ := by
  have hp := normSq_pos hr
  rcases S with ⟨k, l, m⟩; rcases r with ⟨a, b, c⟩
  simp only [radicand, V3.dot, V3.sub, V3.smul, V3.add, V3.cross] at *
  have h3 : a * a + b * b + c * c ≠ 0 := ne_of_gt hp
  have h4 : a ^ 2 + b ^ 2 + c ^ 2 ≠ 0 := by
    rw [show a ^ 2 + b ^ 2 + c ^ 2 = a * a + b * b + c * c by ring]; exact h3
  refine ⟨?_, ?_, ?_⟩
  · have hσ' : σ * σ * (n' * n') = (a * a + b * b + c * c) * (n' * n')
        - n * n * ((a * a + b * b + c * c) - (a * k + b * l + c * m) * (a * k + b * l + c * m)) := by
      rw [hσ]; field_simp
    field_simp
    linear_combination (exp := 1) (a * a + b * b + c * c) * hσ' + (n * n * (a * a + b * b + c * c) ^ 2) * hS
  · refine V3.ext' ?_ ?_ ?_ <;> simp only [] <;> field_simp <;> ring
  · field_simp; ring

/-- Lagrange: `|a × b|² = |a|²|b|² − (a·b)²` (so `|S × r̂|² = 1 − cos²i = sin²i` for unit vectors) -/
theorem cross_normSq (a b : V3 K) :
    V3.dot (V3.cross a b) (V3.cross a b) = V3.dot a a * V3.dot b b - V3.dot a b * V3.dot a b := by
  rcases a with ⟨a1, a2, a3⟩; rcases b with ⟨b1, b2, b3⟩
  simp only [V3.dot, V3.cross]; ring

/-- no total internal reflection when going into the denser medium: `0 < n ≤ n'` makes the radicand ≥ 0 -/
theorem radicand_nonneg_of_le (n n' : K) (S r : V3 K) (hS : V3.dot S S = 1) (hn : 0 < n) (hnn : n ≤ n') :
    0 ≤ radicand n n' S r := by
  have hcs := dot_sq_le r S
  rw [hS, mul_one] at hcs
  have hmu0 : 0 ≤ n / n' := div_nonneg hn.le (hn.le.trans hnn)
  have hmu1 : n / n' ≤ 1 := (div_le_one (lt_of_lt_of_le hn hnn)).mpr hnn
  have hm2 : n / n' * (n / n') ≤ 1 := by nlinarith
  have hm3 : 0 ≤ n / n' * (n / n') := mul_nonneg hmu0 hmu0
  unfold radicand
  nlinarith [mul_self_nonneg (V3.dot r S)]

end Lemmas.C19
