import PrysmVerif.Lemmas.C16Expose
import Mathlib.Algebra.BigOperators.Ring.Finset
import Mathlib.Algebra.BigOperators.Intervals
import Mathlib.Tactic.Ring
import Mathlib.Tactic.FieldSimp
/-!
# C16 — binning and tiling of N-D arrays, on the executable model itself

`Model.C16.totL`, `binL`, `tileL` are the functions that `Model.C16.binND` / `tileND` (the code run by
`Drivers/C16.lean`) read through the row-major index maps.  They recurse over the list of axes, so every
statement below is by induction over the axes: any number of axes, any shape, any per-axis factor.
-/
set_option linter.unusedSectionVars false
set_option linter.unusedSimpArgs false

namespace C16L
open Finset Model.C16

variable {K : Type} [Field K]

theorem sumTo_eq (n : ℕ) (f : ℕ → K) : Num.sumTo n f = ∑ i ∈ range n, f i := by
  induction n with
  | zero => simp [Num.sumTo, Num.ofInt]
  | succ n ih => rw [Num.sumTo, ih, Finset.sum_range_succ]

/-- `Σ_{k < o·f} h k = Σ_{a < o} Σ_{j < f} h (a·f + j)` : the block bijection of one axis, as a sum -/
theorem sum_range_mul (o f : ℕ) (h : ℕ → K) :
    ∑ k ∈ range (o * f), h k = ∑ a ∈ range o, ∑ j ∈ range f, h (binSrc f a j) := by
  induction o with
  | zero => simp
  | succ o ih =>
    rw [Nat.succ_mul, Finset.sum_range_add, ih, Finset.sum_range_succ]
    rfl

theorem totL_nil (x : List ℕ → K) : totL [] x = x [] := rfl

theorem totL_cons (s : ℕ) (ss : List ℕ) (x : List ℕ → K) :
    totL (s :: ss) x = ∑ a ∈ range s, totL ss fun t => x (a :: t) := by
  rw [totL, sumTo_eq]

theorem binL_cons (f : ℕ) (fs : List ℕ) (x : List ℕ → K) (a : ℕ) (t : List ℕ) :
    binL (f :: fs) x (a :: t) = ∑ j ∈ range f, binL fs (fun u => x (binSrc f a j :: u)) t := by
  rw [binL, sumTo_eq]; rfl

/-- `totL` is additive over a finite family -/
theorem totL_sum (ss : List ℕ) (n : ℕ) (g : ℕ → List ℕ → K) :
    totL ss (fun t => ∑ j ∈ range n, g j t) = ∑ j ∈ range n, totL ss (g j) := by
  induction ss generalizing g with
  | nil => rfl
  | cons s ss ih =>
    simp only [totL_cons]
    rw [Finset.sum_comm]
    refine Finset.sum_congr rfl fun a _ => ?_
    exact ih fun j t => g j (a :: t)

theorem totL_congr (ss : List ℕ) (x y : List ℕ → K) (h : ∀ t, t.length = ss.length → x t = y t) :
    totL ss x = totL ss y := by
  induction ss generalizing x y with
  | nil => exact h [] rfl
  | cons s ss ih =>
    simp only [totL_cons]
    refine Finset.sum_congr rfl fun a _ => ih _ _ fun t ht => h (a :: t) (by simp [ht])

theorem totL_mul_left (ss : List ℕ) (c : K) (x : List ℕ → K) : totL ss (fun t => c * x t) = c * totL ss x := by
  induction ss generalizing x with
  | nil => rfl
  | cons s ss ih =>
    simp only [totL_cons, Finset.mul_sum]
    refine Finset.sum_congr rfl fun a _ => ih fun t => x (a :: t)

/-- **sum mode conserves the total**: for every list of output lengths `os` and factors `fs` of the same length -/
theorem totL_binL (os fs : List ℕ) (hl : os.length = fs.length) (x : List ℕ → K) :
    totL os (binL fs x) = totL (List.zipWith (· * ·) os fs) x := by
  induction fs generalizing os x with
  | nil =>
    cases os with
    | nil => rfl
    | cons o os => simp at hl
  | cons f fs ih =>
    cases os with
    | nil => simp at hl
    | cons o os =>
      have hl' : os.length = fs.length := by simpa using hl
      rw [List.zipWith_cons_cons, totL_cons, totL_cons, sum_range_mul]
      refine Finset.sum_congr rfl fun a _ => ?_
      simp only [binL_cons]
      rw [totL_sum]
      refine Finset.sum_congr rfl fun j _ => ?_
      exact ih os hl' _

/-- number of samples per block -/
def blockSize (fs : List ℕ) : ℕ := fs.foldr (· * ·) 1

theorem blockSize_cons (f : ℕ) (fs : List ℕ) : blockSize (f :: fs) = f * blockSize fs := rfl

/-- the block sum of a constant array is `Πf` times the constant -/
theorem binL_const (fs : List ℕ) (c : K) (i : List ℕ) (hi : i.length = fs.length) :
    binL fs (fun _ => c) i = (blockSize fs : K) * c := by
  induction fs generalizing i with
  | nil => simp [binL, blockSize]
  | cons f fs ih =>
    cases i with
    | nil => simp at hi
    | cons a t =>
      rw [binL_cons]
      have : ∀ j ∈ range f, binL fs (fun _ => c) t = (blockSize fs : K) * c := fun j _ => ih t (by simpa using hi)
      rw [Finset.sum_congr rfl this, Finset.sum_const, Finset.card_range, blockSize_cons, nsmul_eq_mul]
      push_cast; ring

/-- pulling the tiled array out of a block sum: inside block `i`, `tile(y)` is the constant `y i` -/
theorem binL_tile_mul (fs : List ℕ) (y x : List ℕ → K) (i : List ℕ) (hi : i.length = fs.length) :
    binL fs (fun k => tileL fs y k * x k) i = y i * binL fs x i := by
  induction fs generalizing i y x with
  | nil =>
    cases i with
    | nil => simp [binL, tileL, tileIdx]
    | cons a t => simp at hi
  | cons f fs ih =>
    cases i with
    | nil => simp at hi
    | cons a t =>
      have ht : t.length = fs.length := by simpa using hi
      rw [binL_cons, binL_cons, Finset.mul_sum]
      refine Finset.sum_congr rfl fun j hj => ?_
      have hjf : j < f := Finset.mem_range.mp hj
      have hsrc : tileSrc f (binSrc f a j) = a := by
        simp only [binSrc, tileSrc]
        rw [Nat.add_comm, Nat.add_mul_div_right _ _ (by omega), Nat.div_eq_of_lt hjf, Nat.zero_add]
      have := ih (fun v => y (a :: v)) (fun u => x (binSrc f a j :: u)) t ht
      simp only [tileL, tileIdx, List.zipWith_cons_cons, hsrc] at this ⊢
      exact this

/-- **adjointness** of `bindown(sum)` and `tile(avg)`: `⟨y, bin x⟩ = ⟨tile y, x⟩` -/
theorem adjoint_sum_avg (os fs : List ℕ) (hl : os.length = fs.length) (x y : List ℕ → K) :
    totL os (fun i => y i * binL fs x i) = totL (List.zipWith (· * ·) os fs) (fun k => tileL fs y k * x k) := by
  rw [← totL_binL os fs hl]
  exact totL_congr os _ _ fun i hi => (binL_tile_mul fs y x i (hi.trans hl)).symm

/-- binning undoes tiling: `bindown(tile(y, avg), sum) = Πf · y` -/
theorem binL_tileL (fs : List ℕ) (y : List ℕ → K) (i : List ℕ) (hi : i.length = fs.length) :
    binL fs (tileL fs y) i = (blockSize fs : K) * y i := by
  have h := binL_tile_mul fs y (fun _ => 1) i hi
  simp only [mul_one] at h
  rw [h, binL_const fs 1 i hi]; ring

/-- tiling (avg scaling) multiplies the total by `Πf` -/
theorem totL_tileL (os fs : List ℕ) (hl : os.length = fs.length) (y : List ℕ → K) :
    totL (List.zipWith (· * ·) os fs) (tileL fs y) = (blockSize fs : K) * totL os y := by
  rw [← totL_binL os fs hl, ← totL_mul_left]
  exact totL_congr os _ _ fun i hi => binL_tileL fs y i (hi.trans hl)

theorem prodL_eq_blockSize (fs : List ℕ) : prodL fs = blockSize fs := by
  unfold prodL blockSize
  have h : ∀ (l : List ℕ) (a : ℕ), l.foldl (· * ·) a = a * l.foldr (· * ·) 1 := by
    intro l
    induction l with
    | nil => intro a; simp
    | cons b l ih => intro a; rw [List.foldl_cons, List.foldr_cons, ih]; ring
  rw [h, one_mul]

/-- **bridge**: the arrays computed by `binND` / `tileND` (what the driver runs) are `binL` / `tileL` read through the
row-major index maps `ravel` / `unravel` -/
theorem binND_size [Inhabited K] (shape f : List ℕ) (x : Array K) (avg : Bool) :
    (binND shape f x avg).size = prodL (List.zipWith (· / ·) shape f) := by
  simp [binND]

theorem binND_get [Inhabited K] (shape f : List ℕ) (x : Array K) (t : ℕ)
    (ht : t < (binND shape f x false).size) :
    (binND shape f x false)[t] = binL f (fun k => x[ravel shape k]!) (unravel (List.zipWith (· / ·) shape f) t) := by
  simp [binND]

theorem binND_avg_get [Inhabited K] (shape f : List ℕ) (x : Array K) (t : ℕ)
    (ht : t < (binND shape f x true).size) :
    (binND shape f x true)[t]
      = binL f (fun k => x[ravel shape k]!) (unravel (List.zipWith (· / ·) shape f) t) / (blockSize f : K) := by
  simp [binND, prodL_eq_blockSize, Num.ofInt]

theorem tileND_get [Inhabited K] (oshape f : List ℕ) (y : Array K) (t : ℕ)
    (ht : t < (tileND oshape f y false).size) :
    (tileND oshape f y false)[t] = tileL f (fun i => y[ravel oshape i]!) (unravel (List.zipWith (· * ·) oshape f) t) := by
  simp [tileND]

theorem tileND_sum_get [Inhabited K] (oshape f : List ℕ) (y : Array K) (t : ℕ)
    (ht : t < (tileND oshape f y true).size) :
    (tileND oshape f y true)[t]
      = tileL f (fun i => y[ravel oshape i]!) (unravel (List.zipWith (· * ·) oshape f) t) * (1 / (blockSize f : K)) := by
  simp [tileND, prodL_eq_blockSize, Num.ofInt]

end C16L
