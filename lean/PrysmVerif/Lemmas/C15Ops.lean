import PrysmVerif.Lemmas.C15Fourier
import PrysmVerif.Model.C15
/-!
# C15 — the pipelines of `Model.C15` under the mathematical instance of `FOps`

`mathOps E c re absf argf` interprets `fft2 / ifft2` as the DFT sums with kernel `E`, `fftshift /
ifftshift` as the rotations by `±c`, `*` as the sample-wise product, and `.real`, `abs`, `angle` as the
sample-wise maps `re`, `absf`, `argf`.  Real arrays are arrays over a ring `R` embedded by a ring
homomorphism `ι : R →+* K` that `re` fixes (`ℝ → ℂ`).
-/
set_option linter.unusedSectionVars false
set_option linter.unusedSimpArgs false

namespace C15L
open Finset Model.C15

variable {G K R : Type} [AddCommGroup G] [Fintype G] [DecidableEq G] [Field K] [CommRing R]

def mathOps (E : Kernel G K) (c : G) (re absf argf : K → K) : FOps (G → K) G where
  fft2 := fft E
  ifft2 := ifft E
  fftshift := shiftBy c
  ifftshift := shiftBy (-c)
  mul := fun a b => a * b
  real := fun a g => re (a g)
  abs := fun a g => absf (a g)
  angle := fun a g => argf (a g)
  divAt := fun a i g => a g / a i

variable (E : Kernel G K) (c : G) (re absf argf : K → K) (ι : R →+* K)

/-- embed a real array -/
def emb (ι : R →+* K) (o : G → R) : G → K := fun g => ι (o g)

theorem emb_cconvC (o h : G → R) : cconvC c (emb ι o) (emb ι h) = emb ι (cconvC c o h) := by
  funext p; simp only [cconvC, emb, map_sum, map_mul]

theorem emb_cconv (o h : G → R) : cconv (emb ι o) (emb ι h) = emb ι (cconv o h) := by
  funext p; simp only [cconv, emb, map_sum, map_mul]

/-- `conv` is the centred circular convolution of the two real arrays -/
theorem conv_mathOps (hre : ∀ r, re (ι r) = ι r) (o h : G → R) :
    conv (mathOps E c re absf argf) (emb ι o) (emb ι h) = emb ι (cconvC c o h) := by
  simp only [conv, mathOps]
  rw [ifft_fft_mul, shift_cconv_unshift, emb_cconvC]
  funext p; simp only [emb, hre]

theorem foldl_tfStep (X : G → K) (tfs : List (G → K)) :
    tfs.foldl (tfStep (mathOps E c re absf argf)) X = X * tfs.prod := by
  induction tfs generalizing X with
  | nil => simp
  | cons t ts ih => rw [List.foldl_cons, ih, List.prod_cons, ← mul_assoc]; rfl

/-- applying a list of transfer functions = applying their product -/
theorem applyTF_list (shift : Bool) (o : G → K) (tfs : List (G → K)) :
    applyTF (mathOps E c re absf argf) shift o tfs = applyTF (mathOps E c re absf argf) shift o [tfs.prod] := by
  simp only [applyTF, foldl_tfStep, List.prod_cons, List.prod_nil, mul_one]

/-- unshifted convention with a single transfer function: circular convolution with `ifft T` -/
theorem applyTF_unshifted (o T : G → K) :
    applyTF (mathOps E c re absf argf) false o [T] = fun p => re (cconv o (ifft E T) p) := by
  simp only [applyTF, tfPost, tfPre, tfStep, List.foldl_cons, List.foldl_nil, mathOps, Bool.false_eq_true, if_false]
  rw [ifft_fft_mul_tf]

/-- the two conventions agree: a centred transfer function in the shifted convention does what the
same transfer function with origin at `[0,0]` does in the unshifted convention -/
theorem applyTF_shifted_eq_unshifted (o T : G → K) :
    applyTF (mathOps E c re absf argf) true o [shiftBy c T] = applyTF (mathOps E c re absf argf) false o [T] := by
  rw [applyTF_unshifted]
  simp only [applyTF, tfPost, tfPre, tfStep, List.foldl_cons, List.foldl_nil, mathOps, if_true]
  rw [← shiftBy_mul, shiftBy_cancel_neg, ifft_fft_mul_tf, cconv_shiftBy_left]
  funext p
  simp only [shiftBy]
  congr 2
  abel

/-- all-ones transfer function: identity, in both conventions -/
theorem applyTF_one (hre : ∀ r, re (ι r) = ι r) (shift : Bool) (o : G → R) :
    applyTF (mathOps E c re absf argf) shift (emb ι o) [1] = emb ι o := by
  have hone : shiftBy c (1 : G → K) = 1 := rfl
  cases shift
  · simp only [applyTF, tfPost, tfPre, tfStep, List.foldl_cons, List.foldl_nil, mathOps, Bool.false_eq_true,
      if_false, mul_one, ifft_fft]
    funext p; simp only [emb, hre]
  · rw [← hone, applyTF_shifted_eq_unshifted]
    simp only [applyTF, tfPost, tfPre, tfStep, List.foldl_cons, List.foldl_nil, mathOps, Bool.false_eq_true,
      if_false, mul_one, ifft_fft]
    funext p; simp only [emb, hre]

/-- empty list: identity as well -/
theorem applyTF_nil (hre : ∀ r, re (ι r) = ι r) (shift : Bool) (o : G → R) :
    applyTF (mathOps E c re absf argf) shift (emb ι o) [] = emb ι o := by
  have h := applyTF_list E c re absf argf shift (emb ι o) []
  rw [List.prod_nil] at h
  rw [h, applyTF_one E c re absf argf ι hre]

/-- shifted convention fed with `transform_psf h` is `conv o h` -/
theorem applyTF_transformPsf (hre : ∀ r, re (ι r) = ι r) (o h : G → R) :
    applyTF (mathOps E c re absf argf) true (emb ι o) [transformPsf (mathOps E c re absf argf) (emb ι h)]
      = emb ι (cconvC c o h) := by
  rw [← conv_mathOps E c re absf argf ι hre]
  simp only [transformPsf, mathOps]
  rw [show shiftBy c (fft E (shiftBy (-c) (emb ι h))) = shiftBy c (fft E (shiftBy (-c) (emb ι h))) from rfl]
  have := applyTF_shifted_eq_unshifted E c re absf argf (emb ι o) (fft E (shiftBy (-c) (emb ι h)))
  simp only [mathOps] at this
  rw [this]
  simp only [applyTF, tfPost, tfPre, tfStep, List.foldl_cons, List.foldl_nil, conv, Bool.false_eq_true, if_false]
  rw [ifft_fft_mul, ifft_fft_mul, ← cconv_shiftBy_left, shiftBy_neg_cancel]

/-- sum of the unshifted spectrum route: the image total is the object total times the DC gain `T 0` -/
theorem sum_ifft (F : G → K) : ∑ p, ifft E F p = F 0 := by
  simp only [ifft]
  rw [← Finset.mul_sum, Finset.sum_comm]
  simp_rw [← Finset.mul_sum]
  have : ∀ k, ∑ p, E.χ k (-p) = if k = 0 then (Fintype.card G : K) else 0 := by
    intro k
    rw [← E.orth' k, ← Equiv.sum_comp (Equiv.neg G)]
    simp
  simp_rw [this]
  rw [Finset.sum_eq_single 0]
  · simp only [if_true]; field_simp [E.card_ne]
  · intro b _ hb; simp [hb]
  · intro h; exact absurd (Finset.mem_univ _) h

theorem fft_zero (f : G → K) : fft E f 0 = ∑ a, f a := by
  simp only [fft, E.zero_left, mul_one]

theorem shiftBy_one {A : Type} [One A] (c : G) : shiftBy c (1 : G → A) = 1 := rfl

theorem shiftBy_list_prod (c : G) (tfs : List (G → K)) : (tfs.map (shiftBy c)).prod = shiftBy c tfs.prod := by
  induction tfs with
  | nil => rfl
  | cons t ts ih => rw [List.map_cons, List.prod_cons, List.prod_cons, ih, shiftBy_mul]

/-- the two conventions agree on whole lists of transfer functions -/
theorem applyTF_shifted_eq_unshifted_list (o : G → K) (tfs : List (G → K)) :
    applyTF (mathOps E c re absf argf) true o (tfs.map (shiftBy c)) = applyTF (mathOps E c re absf argf) false o tfs := by
  rw [applyTF_list, shiftBy_list_prod, applyTF_shifted_eq_unshifted, ← applyTF_list]

end C15L
