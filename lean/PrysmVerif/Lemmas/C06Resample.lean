import PrysmVerif.Lemmas.C06Adjoint
/-!
# C06 helper lemmas: circular shifts, the `fourier_resample` chain, mask compress / scatter
-/
set_option linter.unusedSectionVars false
set_option linter.unusedVariables false
set_option linter.unusedSimpArgs false
open Model.C06 Finset C06L
namespace C06L

theorem rollIdx_lt (n s i : Nat) (hs : s ≤ n) (hi : i < n) : rollIdx n s i < n := by
  unfold rollIdx; split_ifs <;> omega

theorem rollIdx_inv (n s i : Nat) (hs : s ≤ n) (hi : i < n) : rollIdx n (n - s) (rollIdx n s i) = i := by
  unfold rollIdx; split_ifs <;> omega

/-- re-indexing a sum over an axis by a circular shift and its inverse -/
theorem sum_roll {C : Type} [AddCommMonoid C] (n s : Nat) (hs : s ≤ n) (g : Nat → Nat → C) :
    ∑ i ∈ range n, g i (rollIdx n s i) = ∑ j ∈ range n, g (rollIdx n (n - s) j) j := by
  refine Finset.sum_nbij' (rollIdx n s) (rollIdx n (n - s)) ?_ ?_ ?_ ?_ ?_
  · intro a ha; exact mem_range.2 (rollIdx_lt n s a hs (mem_range.1 ha))
  · intro a ha; exact mem_range.2 (rollIdx_lt n (n - s) a (by omega) (mem_range.1 ha))
  · intro a ha; exact rollIdx_inv n s a hs (mem_range.1 ha)
  · intro a ha
    have := rollIdx_inv n (n - s) a (by omega) (mem_range.1 ha)
    rwa [Nat.sub_sub_self hs] at this
  · intro a ha; rw [rollIdx_inv n s a hs (mem_range.1 ha)]

variable {C : Type} [Field C] (conj : C →+* C) (hc : ∀ a, conj (conj a) = a)

/-- a circular shift of both axes is a permutation: its adjoint is the opposite shift (`n − s`, not `s`: they differ for odd `n`
when `s = n / 2`) -/
theorem ip2_roll (m n sy sx : Nat) (hy : sy ≤ m) (hx : sx ≤ n) (u v : Mat C) :
    ip2 conj m n u (roll2 m n sy sx v) = ip2 conj m n (roll2 m n (m - sy) (n - sx) u) v := by
  simp only [ip2, roll2, sumTo_eq]
  rw [sum_roll m sy hy (fun i i' => ∑ j ∈ range n, conj (u i j) * v i' (rollIdx n sx j))]
  refine Finset.sum_congr rfl fun i _ => ?_
  exact sum_roll n sx hx (fun j j' => conj (u (rollIdx m (m - sy) i) j) * v i j')

/-- `ifft2` written with `G = c·Fᴴ` is the scaled conjugate-transpose triple product of `F` -/
theorem idft2_of_scaled_adjoint (m n : Nat) (F1 F2 G1 G2 W : Mat C) (c1 c2 : C)
    (h1 : ∀ i j, G1 i j = c1 * conj (F1 j i)) (h2 : ∀ i j, G2 i j = c2 * conj (F2 j i)) :
    idft2 m m n n G1 W G2 = fun i j => c1 * c2 * dftBack conj m m n n F1 W F2 i j := by
  funext i j
  simp only [dftBack, idft2, matmul, conjT, sumTo_eq, h1, h2, Finset.mul_sum, Finset.sum_mul]
  refine Finset.sum_congr rfl fun a _ => Finset.sum_congr rfl fun b _ => ?_
  ring

theorem ip2_smul_right (m n : Nat) (c : C) (x y : Mat C) :
    ip2 conj m n y (fun i j => c * x i j) = c * ip2 conj m n y x := by
  simp only [ip2, sumTo_eq, Finset.mul_sum]
  refine Finset.sum_congr rfl fun i _ => Finset.sum_congr rfl fun j _ => ?_
  ring

theorem ip2_smul_left (m n : Nat) (c : C) (hcc : conj c = c) (x y : Mat C) :
    ip2 conj m n (fun i j => c * y i j) x = c * ip2 conj m n y x := by
  simp only [ip2, sumTo_eq, Finset.mul_sum, map_mul, hcc]
  refine Finset.sum_congr rfl fun i _ => Finset.sum_congr rfl fun j _ => ?_
  ring

include hc in
/-- the whole `fourier_resample` chain against `fourier_resample_backprop`: adjoint as soon as each roll of the backprop
undoes the mirrored roll of the forward, `ifft2 = c·fft2ᴴ` and the scale factors satisfy `cb·c1·c2 = cf` -/
theorem resample_adjoint' (m n M N fpreY fpreX fpostY fpostX bpreY bpreX bpostY bpostX : Nat)
    (hY1 : bpreY + fpostY = m) (hX1 : bpreX + fpostX = n) (hY2 : bpostY + fpreY = m) (hX2 : bpostX + fpreX = n)
    (F1 F2 G1 G2 Eo Ei : Mat C) (c1 c2 cf cb : C)
    (h1 : ∀ i j, G1 i j = c1 * conj (F1 j i)) (h2 : ∀ i j, G2 i j = c2 * conj (F2 j i))
    (hc1 : conj c1 = c1) (hc2 : conj c2 = c2) (hcb : conj cb = cb) (hs : cb * c1 * c2 = cf) (f y : Mat C) :
    ip2 conj M N y (resampleFwd m n M N fpreY fpreX fpostY fpostX F1 F2 Eo Ei cf f)
      = ip2 conj m n (resampleBack conj m n M N bpreY bpreX bpostY bpostX G1 G2 Eo Ei cb y) f := by
  unfold resampleFwd resampleBack
  have hbY : bpreY = m - fpostY := by omega
  have hbX : bpreX = n - fpostX := by omega
  have hfY : fpreY = m - bpostY := by omega
  have hfX : fpreX = n - bpostX := by omega
  rw [ip2_smul_right, idft2_adjoint conj hc, ip2_roll conj m n fpostY fpostX (by omega) (by omega),
    dft2_adjoint conj hc, ip2_smul_left conj m n cb hcb,
    ip2_roll conj m n fpreY fpreX (by omega) (by omega) _ f,
    idft2_of_scaled_adjoint conj m n F1 F2 G1 G2 _ c1 c2 h1 h2, ← hbY, ← hbX]
  have e : m - fpreY = bpostY := by omega
  have e' : n - fpreX = bpostX := by omega
  rw [e, e']
  have : roll2 m n bpostY bpostX (fun i j => c1 * c2 *
        dftBack conj m m n n F1 (roll2 m n bpreY bpreX (dftBack conj M m n N Eo y Ei)) F2 i j)
      = fun i j => (c1 * c2) * roll2 m n bpostY bpostX
          (dftBack conj m m n n F1 (roll2 m n bpreY bpreX (dftBack conj M m n N Eo y Ei)) F2) i j := by
    funext i j; simp only [roll2]
  rw [this, ip2_smul_left conj m n (c1 * c2) (by rw [map_mul, hc1, hc2]), ← hs]
  ring

/-! ### masks -/
section mask
variable {K : Type} [Field K]

/-- scatter-into-zeros is the adjoint of compress: `Σ_k g_k · δ[idx k] = Σ_i scatter(g)_i · δ_i` whenever every kept index lies
inside the array -/
theorem compress_scatter_adjoint' (cnt n : Nat) (idx : Nat → Nat) (hidx : ∀ k, k < cnt → idx k < n) (g δ : Vec K) :
    ∑ k ∈ range cnt, g k * compress idx δ k = ∑ i ∈ range n, scatterMask cnt idx g i * δ i := by
  simp only [compress, scatterMask, sumTo_eq, ofInt_eq, Int.cast_zero, Finset.sum_mul]
  rw [Finset.sum_comm]
  refine Finset.sum_congr rfl fun k hk => ?_
  have hk' := hidx k (mem_range.1 hk)
  simp only [ite_mul, zero_mul]
  rw [Finset.sum_ite_eq (range n) (idx k) (fun i => g k * δ i)]
  simp [mem_range.2 hk']
end mask

end C06L
