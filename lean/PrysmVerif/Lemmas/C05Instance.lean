import PrysmVerif.Lemmas.C05Fourier
import Mathlib.Analysis.SpecialFunctions.Complex.Log
import Mathlib.Tactic.LinearCombination
/-!
# C03 / C05 — the hypotheses on the abstract Fourier kernel are met by the real thing

`e t = exp(-2πi t)` on `ℝ → ℂ` is a character, `e 0 = 1`, `e z = 1` for integers, its kernel is exactly `ℤ`; hence it
has root-of-unity orthogonality for every length (so none of the theorems is vacuous).
-/
open scoped C01
namespace C03Lemmas
open Complex

noncomputable def eReal (t : ℝ) : ℂ := Complex.exp (-(2 * Real.pi * Complex.I) * (t : ℂ))

theorem eReal_add (a b : ℝ) : eReal (a + b) = eReal a * eReal b := by
  simp only [eReal, ← Complex.exp_add]; congr 1; push_cast; ring

theorem eReal_zero : eReal 0 = 1 := by simp [eReal]

theorem eReal_int (z : ℤ) : eReal (z : ℝ) = 1 := by
  have h := Complex.exp_int_mul_two_pi_mul_I (-z)
  simp only [eReal]
  rw [← h]; congr 1; push_cast; ring

theorem eReal_ker (t : ℝ) (h : eReal t = 1) : ∃ z : ℤ, t = z := by
  simp only [eReal] at h
  obtain ⟨n, hn⟩ := Complex.exp_eq_one_iff.mp h
  refine ⟨-n, ?_⟩
  have h2 : (2 * (Real.pi : ℂ) * Complex.I) ≠ 0 := by
    simp [Real.pi_ne_zero, Complex.I_ne_zero]
  have h4 : -(t : ℂ) = (n : ℂ) :=
    mul_left_cancel₀ h2 (by linear_combination hn : (2 * (Real.pi : ℂ) * Complex.I) * (-(t : ℂ)) = (2 * (Real.pi : ℂ) * Complex.I) * (n : ℂ))
  have h6 : ((t : ℝ) : ℂ) = (((-n : ℤ) : ℝ) : ℂ) := by push_cast; linear_combination -h4
  exact_mod_cast h6

theorem eReal_orth (M : Nat) (hM : 0 < M) (d : ℤ) :
    ∑ l ∈ Finset.range M, eReal ((d : ℝ) * (l : ℝ) / (M : ℝ)) = if (M : ℤ) ∣ d then (M : ℂ) else 0 :=
  orth_of_character eReal eReal_add eReal_int eReal_ker M hM d

theorem eReal_norm (t : ℝ) : ‖eReal t‖ = 1 := by
  simp only [eReal, Complex.norm_exp]
  simp

/-- the focal field of a flat pupil is nowhere brighter than at the geometric focus -/
theorem flat_peak_is_max (n : Nat) (dx κ : ℝ) (a : ℂ) (ξ : ℝ) :
    ‖Model.C03.F1 eReal n dx κ (fun _ => a) ξ‖ ≤ ‖Model.C03.F1 eReal n dx κ (fun _ => a) 0‖ := by
  have h0 : Model.C03.F1 eReal n dx κ (fun _ => a) 0 = (n : ℂ) * a := by simp [F1_eq_sum, eReal_zero]
  rw [h0, F1_eq_sum]
  calc ‖∑ i ∈ Finset.range n, a * eReal (Model.C03.coord n i * dx * ξ * κ)‖
      ≤ ∑ i ∈ Finset.range n, ‖a * eReal (Model.C03.coord n i * dx * ξ * κ)‖ := norm_sum_le _ _
    _ = ∑ _i ∈ Finset.range n, ‖a‖ := by simp [eReal_norm]
    _ = ‖(n : ℂ) * a‖ := by simp

end C03Lemmas
