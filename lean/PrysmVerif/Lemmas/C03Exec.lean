import PrysmVerif.Model.C03Exec
import PrysmVerif.Lemmas.C03Czt
/-!
# C03 / C05 — the tables the drivers print are the models the theorems speak about

`Model.C03.Exec.table2G / fixedTableG / fpmTableG` memoise the row transform in an array; reading element `[k,l]` back gives
`Model.C03.mdft2 / fixedSampling`, resp. `Model.C05.toFpmAndBack`, for every index inside the table.
-/
open C03Lemmas
open scoped C01
namespace C03Lemmas
open Model.C03 Model.C05 Model.C03.Exec
open Model.C01 (rd2 tab2)
variable {R V : Type} [Field R] [CharZero R] [Field V] [CharZero V]

theorem mdft1_congr (e : R → V) (n N : Nat) (α s : R) (f g : Nat → V) (l : Nat) (h : ∀ i < n, f i = g i) :
    mdft1 e n N α s f l = mdft1 e n N α s g l := by
  simp only [mdft1_eq_sum]
  exact Finset.sum_congr rfl fun i hi => by rw [h i (Finset.mem_range.mp hi)]

theorem mdft2_congr (e : R → V) (m n M N : Nat) (αy αx sy sx : R) (norm : V) (f g : Nat → Nat → V) (k l : Nat)
    (h : ∀ j < m, ∀ i < n, f j i = g j i) :
    mdft2 e m n M N αy αx sy sx norm f k l = mdft2 e m n M N αy αx sy sx norm g k l := by
  simp only [mdft2]
  congr 1
  exact mdft1_congr e m M αy sy _ _ k fun j hj => mdft1_congr e n N αx sx _ _ l fun i hi => h j hj i hi

theorem table2G_eq (e : R → V) (m n M N : Nat) (αy αx sy sx : R) (norm : V) (f : Array (Array V)) (k l : Nat)
    (hk : k < M) (hl : l < N) :
    rd2 (table2G e m n M N αy αx sy sx norm f) k l = mdft2 e m n M N αy αx sy sx norm (rd2 f) k l := by
  simp only [table2G]
  rw [C01.rd2_tab2_lt _ hk hl]
  simp only [mdft2]
  congr 1
  exact mdft1_congr e m M αy sy _ _ k fun j hj => C01.rd2_tab2_lt _ hj hl

/-- the table of either fixed-sampling route printed by the drivers is `Model.C03.fixedSampling` -/
theorem fixedTableG_eq (e : R → V) (ofR : R → V) (sqrt : R → R) (m n M N : Nat) (dx z lam dxo shx shy : R)
    (f : Array (Array V)) (k l : Nat) (hk : k < M) (hl : l < N) :
    rd2 (fixedTableG e ofR sqrt m n M N dx z lam dxo shx shy f) k l
      = fixedSampling e ofR sqrt m n M N dx z lam dxo shx shy (rd2 f) k l := by
  simp only [fixedTableG, fixedSampling]
  exact table2G_eq e m n M N _ _ _ _ _ f k l hk hl

/-- the `to_fpm_and_back` table printed by the C05 driver is `Model.C05.toFpmAndBack` -/
theorem fpmTableG_eq (e : R → V) (ofR : R → V) (sqrt : R → R) (m n My Mx : Nat) (dx efl lam fdx shx shy : R)
    (mask f : Array (Array V)) (j i : Nat) (hj : j < m) (hi : i < n) :
    rd2 (fpmTableG e ofR sqrt m n My Mx dx efl lam fdx shx shy mask f) j i
      = toFpmAndBack e ofR sqrt m n My Mx dx efl lam fdx shx shy (rd2 mask) (rd2 f) j i := by
  simp only [fpmTableG, toFpmAndBack, maskAndBack]
  rw [table2G_eq _ My Mx m n _ _ _ _ _ _ j i hj hi]
  refine mdft2_congr _ My Mx m n _ _ _ _ _ _ _ j i fun k hk l hl => ?_
  rw [C01.rd2_tab2_lt _ hk hl, fixedTableG_eq e ofR sqrt m n My Mx dx efl lam fdx shx shy f k l hk hl]
  simp only [fixedSampling]

/-- the `Wavefront.babinet` table printed by the C05 driver is `Model.C05.babinet` -/
theorem babTableG_eq (e : R → V) (ofR : R → V) (sqrt : R → R) (m n My Mx : Nat) (dx efl lam fdx : R)
    (lyot mask f : Array (Array V)) (j i : Nat) (hj : j < m) (hi : i < n) :
    rd2 (babTableG e ofR sqrt m n My Mx dx efl lam fdx lyot mask f) j i
      = babinet e ofR sqrt m n My Mx dx efl lam fdx (rd2 lyot) (rd2 mask) (rd2 f) j i := by
  simp only [babTableG, babinet]
  rw [C01.rd2_tab2_lt _ hj hi, fpmTableG_eq e ofR sqrt m n My Mx dx efl lam fdx _ _ _ f j i hj hi]
  congr 2
  simp only [toFpmAndBack, maskAndBack]
  refine mdft2_congr _ My Mx m n _ _ _ _ _ _ _ j i fun k hk l hl => ?_
  rw [C01.rd2_tab2_lt _ hk hl]

end C03Lemmas
