import PrysmVerif.Lemmas.C19
import Mathlib.LinearAlgebra.Matrix.Notation
import Mathlib.LinearAlgebra.Matrix.NonsingularInverse
/-! # bridge `Model.C19.M3` ↔ Mathlib `Matrix (Fin 3) (Fin 3)`: products of orthogonal matrices, left ⇔ right inverse -/
namespace Lemmas.C19
open Model.C19 Matrix
variable {K : Type} [Field K]

def toMat (m : M3 K) : Matrix (Fin 3) (Fin 3) K :=
  !![m.r0.x, m.r0.y, m.r0.z; m.r1.x, m.r1.y, m.r1.z; m.r2.x, m.r2.y, m.r2.z]

theorem toMat_inj {a b : M3 K} (h : toMat a = toMat b) : a = b := by
  rcases a with ⟨⟨a0, a1, a2⟩, ⟨a3, a4, a5⟩, ⟨a6, a7, a8⟩⟩
  rcases b with ⟨⟨b0, b1, b2⟩, ⟨b3, b4, b5⟩, ⟨b6, b7, b8⟩⟩
  have e := fun i j => congrFun (congrFun h i) j
  have e00 := e 0 0; have e01 := e 0 1; have e02 := e 0 2
  have e10 := e 1 0; have e11 := e 1 1; have e12 := e 1 2
  have e20 := e 2 0; have e21 := e 2 1; have e22 := e 2 2
  simp [toMat] at e00 e01 e02 e10 e11 e12 e20 e21 e22
  simp [*]

theorem toMat_mul (a b : M3 K) : toMat (M3.mul a b) = toMat a * toMat b := by
  ext i j
  fin_cases i <;> fin_cases j <;>
    simp [toMat, M3.mul, M3.col0, M3.col1, M3.col2, V3.dot, Matrix.mul_apply, Fin.sum_univ_three]

theorem toMat_transpose (a : M3 K) : toMat (M3.transpose a) = (toMat a)ᵀ := by
  ext i j
  fin_cases i <;> fin_cases j <;> simp [toMat, M3.transpose]

theorem toMat_one : toMat (M3.one : M3 K) = 1 := by
  ext i j
  fin_cases i <;> fin_cases j <;> simp [toMat, M3.one]

/-- for a square matrix a left inverse is a right inverse -/
theorem orth_comm {R : M3 K} (h : M3.mul (M3.transpose R) R = M3.one) : M3.mul R (M3.transpose R) = M3.one := by
  apply toMat_inj
  have := congrArg toMat h
  rw [toMat_mul, toMat_transpose, toMat_one] at *
  exact mul_eq_one_comm.mp this

theorem orth_mul {A B : M3 K} (hA : M3.mul (M3.transpose A) A = M3.one) (hB : M3.mul (M3.transpose B) B = M3.one) :
    M3.mul (M3.transpose (M3.mul A B)) (M3.mul A B) = M3.one := by
  apply toMat_inj
  have hA' := congrArg toMat hA
  have hB' := congrArg toMat hB
  rw [toMat_mul, toMat_transpose, toMat_one] at *
  rw [toMat_mul, Matrix.transpose_mul, Matrix.mul_assoc, ← Matrix.mul_assoc _ (toMat A), hA', Matrix.one_mul, hB']
end Lemmas.C19
