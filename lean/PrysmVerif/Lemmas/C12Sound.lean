import PrysmVerif.Model.C12
import Mathlib.Algebra.Field.Basic
import Mathlib.Tactic.Ring
/-!
# C12 — soundness of the effect-list analyser (`Model.C12.astep`) w.r.t. the concrete semantics (`Model.C12.step`)

`K` is any field; `Num K` is instantiated from the field structure (scoped to this namespace).
-/
set_option linter.unusedSectionVars false
set_option linter.unusedVariables false
set_option linter.unusedSimpArgs false

namespace C12
open Model.C12

/-- the arithmetic signature of the models, read in a field -/
scoped instance (priority := 100) fieldNum {K : Type} [Field K] : Num K := { ofInt := fun i => (i : K) }

variable {K : Type} [Field K]

theorem ofInt_one : (Num.ofInt 1 : K) = 1 := by show ((1 : Int) : K) = 1; simp

/-! ## the coherence invariant (what the user sees) -/

/-- a Cartesian cache has the shape of the data and is spaced by the current `dx` -/
def WfAxis (s : State K) (a : Axis K) : Prop := a.rows = s.rows ∧ a.cols = s.cols ∧ a.sp = s.dx

/-- `Inv s`: every populated coordinate cache has the shape of the data and the current spacing, the polar caches
    are the polar coordinates of the *current* Cartesian caches, and the caches are populated in pairs -/
structure Inv (s : State K) : Prop where
  x : ∀ a, s.x = some a → WfAxis s a
  y : ∀ a, s.y = some a → WfAxis s a
  r : ∀ p, s.r = some p → s.x = some p.sx ∧ s.y = some p.sy
  t : ∀ p, s.t = some p → s.x = some p.sx ∧ s.y = some p.sy
  link : s.x.isSome = s.y.isSome
  linkP : s.r.isSome = s.t.isSome

/-! ## the simulation relation -/

def evalA (s0 : State K) (env : Env K) : AVal → K
  | .unknown => 0
  | .one => 1
  | .entry => s0.dx
  | .arg i => env.arg i

def evalShape (s0 : State K) (env : Env K) : AShape → Nat × Nat
  | .entry => (s0.rows, s0.cols)
  | .resh k => env.shape k

def factC (s0 : State K) (env : Env K) : AC → Option (Axis K) → Prop
  | .none, c => c = none
  | .st p sh sp, c => (p = true → c.isSome = true) ∧
      ∀ ax, c = some ax → (ax.rows, ax.cols) = evalShape s0 env sh ∧ (sp ≠ .unknown → ax.sp = evalA s0 env sp)
  | .bad, _ => True

def reslOpt (env : Env K) (c : XY) : Option Nat → Axis K → Axis K
  | none, a => a
  | some k, a => resliceAxis env c k a

def factP (env : Env K) : AP → Option (Polar K) → Option (Axis K) → Option (Axis K) → Prop
  | .none, p, _, _ => p = none
  | .rel px py, p, x, y => ∀ q, p = some q → x = some (reslOpt env .x px q.sx) ∧ y = some (reslOpt env .y py q.sy)
  | .bad, _, _, _ => True

structure Rel (s0 : State K) (env : Env K) (A : Abs) (s : State K) : Prop where
  shape : (s.rows, s.cols) = evalShape s0 env A.shape
  dx : A.dx ≠ .unknown → s.dx = evalA s0 env A.dx
  saved : ∀ i, lookupA A.saved i ≠ .unknown → s.saved i = evalA s0 env (lookupA A.saved i)
  x : factC s0 env A.x s.x
  y : factC s0 env A.y s.y
  r : factP env A.r s.r s.x s.y
  t : factP env A.t s.t s.x s.y
  link : A.link = true → s.x.isSome = s.y.isSome
  linkP : A.linkP = true → s.r.isSome = s.t.isSome

theorem rel_init (s0 : State K) (env : Env K) (h : Inv s0) : Rel s0 env ainit s0 := by
  refine ⟨rfl, fun _ => rfl, ?_, ?_, ?_, ?_, ?_, fun _ => h.link, fun _ => h.linkP⟩
  · intro i hi; simp [ainit, lookupA] at hi
  · refine ⟨by simp, fun ax hax => ?_⟩
    have := h.x ax hax
    simp [evalShape, evalA, this.1, this.2.1, this.2.2]
  · refine ⟨by simp, fun ax hax => ?_⟩
    have := h.y ax hax
    simp [evalShape, evalA, this.1, this.2.1, this.2.2]
  · intro q hq; simpa [reslOpt] using h.r q hq
  · intro q hq; simpa [reslOpt] using h.t q hq

theorem okC_sound {s0 : State K} {env : Env K} {A : Abs} {s : State K} {a : AC} {c : Option (Axis K)}
    (hs : (s.rows, s.cols) = evalShape s0 env A.shape) (hdx : A.dx ≠ .unknown → s.dx = evalA s0 env A.dx)
    (hok : okC A a = true) (hf : factC s0 env a c) : ∀ ax, c = some ax → WfAxis s ax := by
  intro ax hax
  cases a with
  | none => simp [factC] at hf; simp [hf] at hax
  | bad => simp [okC] at hok
  | st p sh sp =>
    simp only [okC, Bool.and_eq_true, decide_eq_true_eq] at hok
    obtain ⟨⟨h1, h2⟩, h3⟩ := hok
    obtain ⟨hsh, hsp⟩ := hf.2 ax hax
    subst h1 h2
    have e := hsh.trans hs.symm
    simp only [Prod.mk.injEq] at e
    exact ⟨e.1, e.2, (hsp h3).trans (hdx h3).symm⟩

theorem okP_sound {env : Env K} {a : AP} {p : Option (Polar K)} {x y : Option (Axis K)}
    (hok : okP a = true) (hf : factP env a p x y) : ∀ q, p = some q → x = some q.sx ∧ y = some q.sy := by
  intro q hq
  cases a with
  | none => simp [factP] at hf; simp [hf] at hq
  | bad => simp [okP] at hok
  | rel px py =>
    cases px <;> cases py <;> simp [okP] at hok
    simpa [reslOpt] using hf q hq

/-- an accepted abstract state describes only coherent concrete states -/
theorem accept_sound {s0 : State K} {env : Env K} {A : Abs} {s : State K}
    (hacc : accept A = true) (h : Rel s0 env A s) : Inv s := by
  simp only [accept, Bool.and_eq_true, Bool.not_eq_true'] at hacc
  obtain ⟨⟨⟨⟨⟨⟨_, hx⟩, hy⟩, hr⟩, ht⟩, hl⟩, hlp⟩ := hacc
  exact ⟨okC_sound h.shape h.dx hx h.x, okC_sound h.shape h.dx hy h.y, okP_sound hr h.r, okP_sound ht h.t,
    h.link hl, h.linkP hlp⟩

/-! ## soundness of the transfer functions -/

theorem amul_sound (s0 : State K) (env : Env K) (a b : AVal) (h : amul a b ≠ .unknown) :
    evalA s0 env (amul a b) = evalA s0 env a * evalA s0 env b := by
  cases a <;> cases b <;> simp_all [amul, evalA]

theorem aeval_sound {s0 : State K} {env : Env K} {A : Abs} {s : State K} (h : Rel s0 env A s) (v : Val)
    (hv : aeval A v ≠ .unknown) : evalV env s v = evalA s0 env (aeval A v) := by
  cases v with
  | one => simp [evalV, aeval, evalA, ofInt_one]
  | dx => exact h.dx hv
  | arg i => rfl
  | saved i => exact h.saved i hv

theorem factP_spoil {env : Env K} {a : AP} {p : Option (Polar K)} {x y x' y' : Option (Axis K)}
    (h : factP env a p x y) : factP env (spoilP a) p x' y' := by
  cases a <;> simp_all [spoilP, factP]

theorem factC_fresh {s0 : State K} {env : Env K} {A : Abs} {s : State K} (h : Rel s0 env A s) (c : XY) (p : Bool) :
    factC s0 env (.st p A.shape A.dx) (some (freshAxis s c)) := by
  refine ⟨fun _ => rfl, fun ax hax => ?_⟩
  cases hax
  cases c <;> exact ⟨h.shape, h.dx⟩

/-- a polar fact survives when the Cartesian caches change while the polar cache is certainly empty or unconstrained -/
theorem factP_of_xnone {env : Env K} {a : AP} {p : Option (Polar K)} {x y x' y' : Option (Axis K)}
    (h : factP env a p x y) (hx : x = none ∨ y = none) : factP env a p x' y' := by
  cases a with
  | none => exact h
  | bad => trivial
  | rel px py =>
    intro q hq
    have := h q hq
    rcases hx with hx | hx <;> simp [hx] at this

theorem factC_other {s0 : State K} {env : Env K} {A : Abs} {s : State K} (h : Rel s0 env A s) (c : XY)
    {o : AC} {co : Option (Axis K)} (ho : factC s0 env o co) :
    factC s0 env (afillOther A o) (some (freshAxis s c)) := by
  cases o with
  | none => trivial
  | bad => trivial
  | st p sh sp =>
    simp only [afillOther]
    split
    next hc => obtain ⟨rfl, rfl⟩ := hc; exact factC_fresh h c _
    next => trivial

theorem factC_other_keep {s0 : State K} {env : Env K} {A : Abs}
    {o : AC} {co : Option (Axis K)} (ho : factC s0 env o co) (hl : A.link = true → co.isSome = true) :
    factC s0 env (afillOther A o) co := by
  cases o with
  | none => trivial
  | bad => trivial
  | st p sh sp =>
    simp only [afillOther]
    split
    next hc =>
      refine ⟨fun hp => ?_, ho.2⟩
      simp only [Bool.or_eq_true] at hp
      rcases hp with hp | hp
      · exact ho.1 hp
      · exact hl hp
    next => trivial

theorem afillXY_sound {s0 : State K} {env : Env K} {A : Abs} {s : State K} (h : Rel s0 env A s) (c : XY)
    (hf : (afillXY A c).fail = false) : Rel s0 env (afillXY A c) (fillXY s c) := by
  cases c
  · -- c = x
    unfold afillXY at hf ⊢
    simp only [agetC] at hf ⊢
    have hx := h.x
    cases hAx : A.x with
    | none =>
      rw [hAx] at hx
      have hsx : s.x = none := hx
      simp only [fillXY, getXY, hsx]
      exact ⟨h.shape, h.dx, h.saved, factC_fresh h .x true, factC_fresh h .y true,
        factP_spoil h.r, factP_spoil h.t, fun _ => rfl, h.linkP⟩
    | bad => simp [hAx] at hf
    | st p sh sp =>
      rw [hAx] at hx
      cases p
      · simp only [hAx] at hf ⊢
        split at hf
        next hc =>
          obtain ⟨rfl, rfl⟩ := hc
          simp only [true_and, and_self, if_true, otherXY, agetC, asetC]
          cases hsx : s.x with
          | none =>
            simp only [fillXY, getXY, hsx]
            exact ⟨h.shape, h.dx, h.saved, factC_fresh h .x true, factC_other h .y h.y,
              factP_of_xnone h.r (Or.inl hsx), factP_of_xnone h.t (Or.inl hsx), fun _ => rfl, h.linkP⟩
          | some a =>
            simp only [fillXY, getXY, hsx]
            refine ⟨h.shape, h.dx, h.saved, ?_, factC_other_keep h.y ?_, h.r, h.t, h.link, h.linkP⟩
            · rw [hsx] at hx; exact ⟨fun _ => by simp [hsx], by simpa [hsx] using hx.2⟩
            · intro hl; rw [← h.link hl, hsx]; rfl
        next hc => simp at hf
      · simp only [hAx]
        have : s.x.isSome = true := hx.1 rfl
        obtain ⟨a, ha⟩ := Option.isSome_iff_exists.mp this
        simp only [fillXY, getXY, ha]
        exact h
  · -- c = y
    unfold afillXY at hf ⊢
    simp only [agetC] at hf ⊢
    have hx := h.y
    cases hAx : A.y with
    | none =>
      rw [hAx] at hx
      have hsx : s.y = none := hx
      simp only [fillXY, getXY, hsx]
      exact ⟨h.shape, h.dx, h.saved, factC_fresh h .x true, factC_fresh h .y true,
        factP_spoil h.r, factP_spoil h.t, fun _ => rfl, h.linkP⟩
    | bad => simp [hAx] at hf
    | st p sh sp =>
      rw [hAx] at hx
      cases p
      · simp only [hAx] at hf ⊢
        split at hf
        next hc =>
          obtain ⟨rfl, rfl⟩ := hc
          simp only [true_and, and_self, if_true, otherXY, agetC, asetC]
          cases hsx : s.y with
          | none =>
            simp only [fillXY, getXY, hsx]
            exact ⟨h.shape, h.dx, h.saved, factC_other h .x h.x, factC_fresh h .y true,
              factP_of_xnone h.r (Or.inr hsx), factP_of_xnone h.t (Or.inr hsx), fun _ => rfl, h.linkP⟩
          | some a =>
            simp only [fillXY, getXY, hsx]
            refine ⟨h.shape, h.dx, h.saved, factC_other_keep h.x ?_, ?_, h.r, h.t, h.link, h.linkP⟩
            rotate_left
            · rw [hsx] at hx; exact ⟨fun _ => by simp [hsx], by simpa [hsx] using hx.2⟩
            · intro hl; rw [h.link hl, hsx]; rfl
        next hc => simp at hf
      · simp only [hAx]
        have : s.y.isSome = true := hx.1 rfl
        obtain ⟨a, ha⟩ := Option.isSome_iff_exists.mp this
        simp only [fillXY, getXY, ha]
        exact h

theorem afillXY_base (A : Abs) (c : XY) :
    (afillXY A c).shape = A.shape ∧ (afillXY A c).dx = A.dx ∧ (afillXY A c).saved = A.saved := by
  unfold afillXY
  cases c <;> simp only [agetC, otherXY] <;> split <;> (try split) <;> simp [spoilRT, asetC]

theorem afillXY_fail (A : Abs) (c : XY) (h : (afillXY A c).fail = false) : A.fail = false := by
  unfold afillXY at h
  cases c <;> simp only [agetC, otherXY] at h <;> split at h <;> (try split at h) <;> simp_all [spoilRT, asetC]

theorem astorePolar_base (A : Abs) :
    (astorePolar A).shape = A.shape ∧ (astorePolar A).dx = A.dx ∧ (astorePolar A).saved = A.saved := by
  have h1 := afillXY_base A .x
  have h2 := afillXY_base (afillXY A .x) .y
  simp only [astorePolar]
  exact ⟨h2.1.trans h1.1, h2.2.1.trans h1.2.1, h2.2.2.trans h1.2.2⟩

theorem astorePolar_fail (A : Abs) (h : (astorePolar A).fail = false) : A.fail = false :=
  afillXY_fail A .x (afillXY_fail _ .y h)

theorem fill_both (s : State K) :
    ∃ a b, (fillXY (fillXY s .x) .y).x = some a ∧ (fillXY (fillXY s .x) .y).y = some b := by
  cases hx : s.x <;> cases hy : s.y <;> simp [fillXY, getXY, hx, hy]

theorem astorePolar_sound {s0 : State K} {env : Env K} {A : Abs} {s : State K} (h : Rel s0 env A s)
    (hf : (astorePolar A).fail = false) : Rel s0 env (astorePolar A) (storePolar s) := by
  have hf2 : (afillXY (afillXY A .x) .y).fail = false := hf
  have hf1 := afillXY_fail _ _ hf2
  have h1 := afillXY_sound h .x hf1
  have h2 := afillXY_sound h1 .y hf2
  obtain ⟨a, b, ha, hb⟩ := fill_both s
  unfold storePolar astorePolar
  simp only []
  split
  next a' b' ha' hb' =>
    refine ⟨h2.shape, h2.dx, h2.saved, h2.x, h2.y, ?_, ?_, h2.link, fun _ => rfl⟩
    · intro q hq; cases hq; exact ⟨ha', hb'⟩
    · intro q hq; cases hq; exact ⟨ha', hb'⟩
  next hno => exact absurd hb (by intro hb; exact hno a b ha hb)

theorem factC_join_left {s0 : State K} {env : Env K} {a b : AC} {c : Option (Axis K)} (h : factC s0 env a c) :
    factC s0 env (joinC a b) c := by
  cases a <;> cases b <;> simp only [joinC] <;> try trivial
  split
  · exact ⟨fun hp => h.1 (by simp at hp; exact hp.1), h.2⟩
  · trivial

theorem factC_join_right {s0 : State K} {env : Env K} {a b : AC} {c : Option (Axis K)} (h : factC s0 env b c) :
    factC s0 env (joinC a b) c := by
  cases a <;> cases b <;> simp only [joinC] <;> try trivial
  split
  next hc => obtain ⟨rfl, rfl⟩ := hc; exact ⟨fun hp => h.1 (by simp at hp; exact hp.2), h.2⟩
  · trivial

theorem factP_join_left {env : Env K} {a b : AP} {p : Option (Polar K)} {x y : Option (Axis K)}
    (h : factP env a p x y) : factP env (joinP a b) p x y := by
  simp only [joinP]; split
  · exact h
  · trivial

theorem factP_join_right {env : Env K} {a b : AP} {p : Option (Polar K)} {x y : Option (Axis K)}
    (h : factP env b p x y) : factP env (joinP a b) p x y := by
  simp only [joinP]; split
  next hc => rw [hc]; exact h
  · trivial

theorem joinCaches_left {s0 : State K} {env : Env K} {A B : Abs} {s : State K} (h : Rel s0 env A s) :
    Rel s0 env (joinCaches A B) s :=
  ⟨h.shape, h.dx, h.saved, factC_join_left h.x, factC_join_left h.y, factP_join_left h.r, factP_join_left h.t,
    fun hl => h.link (by simp [joinCaches] at hl; exact hl.1), fun hl => h.linkP (by simp [joinCaches] at hl; exact hl.1)⟩

theorem joinCaches_right {s0 : State K} {env : Env K} {A B : Abs} {s : State K} (h : Rel s0 env B s)
    (hb : B.shape = A.shape ∧ B.dx = A.dx ∧ B.saved = A.saved) : Rel s0 env (joinCaches A B) s := by
  obtain ⟨h1, h2, h3⟩ := hb
  refine ⟨?_, ?_, ?_, factC_join_right h.x, factC_join_right h.y, factP_join_right h.r, factP_join_right h.t,
    fun hl => h.link (by simp [joinCaches] at hl; exact hl.2), fun hl => h.linkP (by simp [joinCaches] at hl; exact hl.2)⟩
  · show _ = evalShape s0 env A.shape; rw [← h1]; exact h.shape
  · show A.dx ≠ _ → _ = evalA s0 env A.dx; rw [← h2]; exact h.dx
  · show ∀ i, lookupA A.saved i ≠ _ → _ = evalA s0 env (lookupA A.saved i); rw [← h3]; exact h.saved

theorem amul_known (a b : AVal) (h : amul a b ≠ .unknown) : a ≠ .unknown ∧ b ≠ .unknown := by
  cases a <;> cases b <;> simp_all [amul]

theorem lookupA_cons (i : Nat) (v : AVal) (l : List (Nat × AVal)) (j : Nat) :
    lookupA ((i, v) :: l) j = if i = j then v else lookupA l j := rfl

/-- facts about the Cartesian caches are unaffected by changes of the other fields -/
theorem factC_map {s0 : State K} {env : Env K} {p : Bool} {sh sh' : AShape} {sp sp' : AVal} {c : Option (Axis K)}
    (f : Axis K → Axis K) (h : factC s0 env (.st p sh sp) c)
    (hf : ∀ ax, ((ax.rows, ax.cols) = evalShape s0 env sh ∧ (sp ≠ .unknown → ax.sp = evalA s0 env sp)) →
      ((f ax).rows, (f ax).cols) = evalShape s0 env sh' ∧ (sp' ≠ .unknown → (f ax).sp = evalA s0 env sp')) :
    factC s0 env (.st p sh' sp') (c.map f) := by
  refine ⟨fun hp => by simpa using h.1 hp, fun ax hax => ?_⟩
  cases c with
  | none => simp at hax
  | some a0 =>
    simp at hax
    subst hax
    exact hf a0 (h.2 a0 rfl)

theorem setXY_self (s : State K) (c : XY) (h : getXY s c = none) : setXY s c none = s := by
  cases c <;> cases s <;> simp_all [setXY, getXY]
theorem setRT_self (s : State K) (c : RT) (h : getRT s c = none) : setRT s c none = s := by
  cases c <;> cases s <;> simp_all [setRT, getRT]

/-- `reslice` -/
theorem reslice_sound {s0 : State K} {env : Env K} {A : Abs} {s : State K} (h : Rel s0 env A s) (c : XY) (k : Nat) :
    Rel s0 env (astep A (.reslice c k)) (step env s (.reslice c k)) := by
  have hrel : ∀ (a : AP) (p : Option (Polar K)), factP env a p s.x s.y →
      factP env (resliceRel c k a) p (match c with | .x => s.x.map (resliceAxis env .x k) | .y => s.x)
        (match c with | .x => s.y | .y => s.y.map (resliceAxis env .y k)) := by
    intro a p hp
    cases a with
    | none => exact hp
    | bad => trivial
    | rel px py =>
      cases c
      · simp only [resliceRel]; split
        next hpx => subst hpx; intro q hq; obtain ⟨h1, h2⟩ := hp q hq; exact ⟨by simp [h1, reslOpt], h2⟩
        · trivial
      · simp only [resliceRel]; split
        next hpy => subst hpy; intro q hq; obtain ⟨h1, h2⟩ := hp q hq; exact ⟨h1, by simp [h2, reslOpt]⟩
        · trivial
  cases c
  · simp only [astep, step, agetC, getXY, asetC, setXY]
    refine ⟨h.shape, h.dx, h.saved, ?_, h.y, hrel _ _ h.r, hrel _ _ h.t, fun hl => by simpa using h.link hl, h.linkP⟩
    have hx := h.x
    cases hA : A.x with
    | none => rw [hA] at hx; have hn : _ = none := hx; simp [factC, hn]
    | bad => trivial
    | st p sh sp =>
      rw [hA] at hx
      exact factC_map _ hx (fun ax hax => ⟨by simp [resliceAxis, evalShape], by simpa [resliceAxis] using hax.2⟩)
  · simp only [astep, step, agetC, getXY, asetC, setXY]
    refine ⟨h.shape, h.dx, h.saved, h.x, ?_, hrel _ _ h.r, hrel _ _ h.t, fun hl => by simpa using h.link hl, h.linkP⟩
    have hx := h.y
    cases hA : A.y with
    | none => rw [hA] at hx; have hn : _ = none := hx; simp [factC, hn]
    | bad => trivial
    | st p sh sp =>
      rw [hA] at hx
      exact factC_map _ hx (fun ax hax => ⟨by simp [resliceAxis, evalShape], by simpa [resliceAxis] using hax.2⟩)

theorem resliceP_sound {s0 : State K} {env : Env K} {A : Abs} {s : State K} (h : Rel s0 env A s) (c : RT) (k : Nat) :
    Rel s0 env (astep A (.resliceP c k)) (step env s (.resliceP c k)) := by
  have key : ∀ (a : AP) (p : Option (Polar K)), factP env a p s.x s.y →
      factP env (match a with
        | .rel (some kx) (some ky) => if kx = k ∧ ky = k then AP.rel none none else AP.bad
        | .rel _ _ => AP.bad
        | p => p) (p.map (reslicePolar env k)) s.x s.y := by
    intro a p hp
    cases a with
    | none => have : p = none := hp; simp [factP, this]
    | bad => trivial
    | rel px py =>
      cases px <;> cases py <;> try trivial
      rename_i kx ky
      simp only []
      split
      next hk =>
        obtain ⟨rfl, rfl⟩ := hk
        intro q hq
        cases p with
        | none => simp at hq
        | some q0 =>
          simp at hq; subst hq
          simpa [reslOpt, reslicePolar] using hp q0 rfl
      · trivial
  cases c
  · simp only [astep, step, agetP, getRT, asetP, setRT]
    exact ⟨h.shape, h.dx, h.saved, h.x, h.y, key _ _ h.r, h.t, h.link, fun hl => by simpa using h.linkP hl⟩
  · simp only [astep, step, agetP, getRT, asetP, setRT]
    exact ⟨h.shape, h.dx, h.saved, h.x, h.y, h.r, key _ _ h.t, h.link, fun hl => by simpa using h.linkP hl⟩

theorem scale_sound {s0 : State K} {env : Env K} {A : Abs} {s : State K} (h : Rel s0 env A s) (c : XY) (v : Val) :
    Rel s0 env (astep A (.scale c v)) (step env s (.scale c v)) := by
  have key : ∀ (a : AC) (o : Option (Axis K)), factC s0 env a o →
      factC s0 env (match a with
        | .st p sh sp => AC.st p sh (amul sp (aeval A v))
        | a => a) (o.map (scaleAxis (evalV env s v))) := by
    intro a o ho
    cases a with
    | none => have : o = none := ho; simp [factC, this]
    | bad => trivial
    | st p sh sp =>
      refine factC_map _ ho (fun ax hax => ⟨hax.1, fun hne => ?_⟩)
      obtain ⟨h1, h2⟩ := amul_known _ _ hne
      rw [amul_sound s0 env _ _ hne, ← hax.2 h1, ← aeval_sound h v h2]
      rfl
  cases c
  · simp only [astep, step, agetC, getXY, asetC, setXY, spoilRT]
    exact ⟨h.shape, h.dx, h.saved, key _ _ h.x, h.y, factP_spoil h.r, factP_spoil h.t,
      fun hl => by simpa using h.link hl, h.linkP⟩
  · simp only [astep, step, agetC, getXY, asetC, setXY, spoilRT]
    exact ⟨h.shape, h.dx, h.saved, h.x, key _ _ h.y, factP_spoil h.r, factP_spoil h.t,
      fun hl => by simpa using h.link hl, h.linkP⟩

theorem center_sound {s0 : State K} {env : Env K} {A : Abs} {s : State K} (h : Rel s0 env A s) (c : XY) :
    Rel s0 env (astep A (.center c)) (step env s (.center c)) := by
  have key : ∀ (a : AC) (o : Option (Axis K)) (c : XY), factC s0 env a o →
      factC s0 env a (o.map (centerAxis s c)) := by
    intro a o c ho
    cases a with
    | none => have : o = none := ho; simp [factC, this]
    | bad => trivial
    | st p sh sp => exact factC_map _ ho (fun ax hax => hax)
  cases c
  · simp only [astep, step, getXY, setXY, spoilRT]
    exact ⟨h.shape, h.dx, h.saved, key _ _ _ h.x, h.y, factP_spoil h.r, factP_spoil h.t,
      fun hl => by simpa using h.link hl, h.linkP⟩
  · simp only [astep, step, getXY, setXY, spoilRT]
    exact ⟨h.shape, h.dx, h.saved, h.x, key _ _ _ h.y, factP_spoil h.r, factP_spoil h.t,
      fun hl => by simpa using h.link hl, h.linkP⟩

theorem clearXY_sound {s0 : State K} {env : Env K} {A : Abs} {s : State K} (h : Rel s0 env A s) (c : XY) :
    Rel s0 env (astep A (.clearXY c)) (step env s (.clearXY c)) := by
  cases c
  · simp only [astep, step, agetC, asetC, setXY, spoilRT, otherXY]
    refine ⟨h.shape, h.dx, h.saved, rfl, h.y, factP_spoil h.r, factP_spoil h.t, fun hl => ?_, h.linkP⟩
    have hl := of_decide_eq_true hl
    have hy := h.y; rw [hl] at hy
    have : s.y = none := hy
    simp [this]
  · simp only [astep, step, agetC, asetC, setXY, spoilRT, otherXY]
    refine ⟨h.shape, h.dx, h.saved, h.x, rfl, factP_spoil h.r, factP_spoil h.t, fun hl => ?_, h.linkP⟩
    have hl := of_decide_eq_true hl
    have hx := h.x; rw [hl] at hx
    have : s.x = none := hx
    simp [this]

theorem clearRT_sound {s0 : State K} {env : Env K} {A : Abs} {s : State K} (h : Rel s0 env A s) (c : RT) :
    Rel s0 env (astep A (.clearRT c)) (step env s (.clearRT c)) := by
  cases c
  · simp only [astep, step, agetP, asetP, setRT, otherRT]
    refine ⟨h.shape, h.dx, h.saved, h.x, h.y, rfl, h.t, h.link, fun hl => ?_⟩
    have hl := of_decide_eq_true hl
    have ht := h.t; rw [hl] at ht
    have : s.t = none := ht
    simp [this]
  · simp only [astep, step, agetP, asetP, setRT, otherRT]
    refine ⟨h.shape, h.dx, h.saved, h.x, h.y, h.r, rfl, h.link, fun hl => ?_⟩
    have hl := of_decide_eq_true hl
    have hr := h.r; rw [hl] at hr
    have : s.r = none := hr
    simp [this]

theorem opaqueXY_sound {s0 : State K} {env : Env K} {A : Abs} {s : State K} (h : Rel s0 env A s) (c : XY) :
    Rel s0 env (astep A (.opaqueXY c)) (step env s (.opaqueXY c)) := by
  cases c
  · simp only [astep, step, asetC, setXY, spoilRT]
    exact ⟨h.shape, h.dx, h.saved, trivial, h.y, factP_spoil h.r, factP_spoil h.t, fun hl => by simp at hl, h.linkP⟩
  · simp only [astep, step, asetC, setXY, spoilRT]
    exact ⟨h.shape, h.dx, h.saved, h.x, trivial, factP_spoil h.r, factP_spoil h.t, fun hl => by simp at hl, h.linkP⟩

theorem opaqueRT_sound {s0 : State K} {env : Env K} {A : Abs} {s : State K} (h : Rel s0 env A s) (c : RT) :
    Rel s0 env (astep A (.opaqueRT c)) (step env s (.opaqueRT c)) := by
  cases c
  · simp only [astep, step, asetP, setRT]
    exact ⟨h.shape, h.dx, h.saved, h.x, h.y, trivial, h.t, h.link, fun hl => by simp at hl⟩
  · simp only [astep, step, asetP, setRT]
    exact ⟨h.shape, h.dx, h.saved, h.x, h.y, h.r, trivial, h.link, fun hl => by simp at hl⟩

theorem freshXY_sound {s0 : State K} {env : Env K} {A : Abs} {s : State K} (h : Rel s0 env A s) :
    Rel s0 env (astep A .freshXY) (step env s .freshXY) := by
  simp only [astep, step, spoilRT]
  exact ⟨h.shape, h.dx, h.saved, factC_fresh h .x true, factC_fresh h .y true, factP_spoil h.r, factP_spoil h.t,
    fun _ => rfl, h.linkP⟩

theorem fillRT_sound {s0 : State K} {env : Env K} {A : Abs} {s : State K} (h : Rel s0 env A s) (c : RT)
    (hf : (astep A (.fillRT c)).fail = false) : Rel s0 env (astep A (.fillRT c)) (step env s (.fillRT c)) := by
  have hgen : ∀ (a : AP) (p : Option (Polar K)), factP env a p s.x s.y → agetP A c = a → getRT s c = p →
      Rel s0 env (astep A (.fillRT c)) (step env s (.fillRT c)) := by
    intro a p hp hA hs
    simp only [astep, step] at hf ⊢
    rw [hA] at hf ⊢
    rw [hs]
    cases a with
    | none =>
      have : p = none := hp
      subst this
      exact astorePolar_sound h hf
    | bad =>
      simp only [] at hf ⊢
      have hfB : (astorePolar A).fail = false := by simp [joinCaches] at hf; exact hf.2
      cases p with
      | none => exact joinCaches_right (astorePolar_sound h hfB) (astorePolar_base A)
      | some q => exact joinCaches_left h
    | rel px py =>
      simp only [] at hf ⊢
      have hfB : (astorePolar A).fail = false := by simp [joinCaches] at hf; exact hf.2
      cases p with
      | none => exact joinCaches_right (astorePolar_sound h hfB) (astorePolar_base A)
      | some q => exact joinCaches_left h
  cases c
  · exact hgen _ _ h.r rfl rfl
  · exact hgen _ _ h.t rfl rfl

/-- a transformation of a Cartesian cache does nothing when that cache is empty -/
theorem mapXY_noop (env : Env K) (s : State K) (e : Eff) (he : isMapXY e = true)
    (hx : s.x = none) (hy : s.y = none) : step env s e = s := by
  cases e <;> simp [isMapXY] at he
  case reslice c k => cases c <;> simp [step, getXY, hx, hy, setXY] <;> cases s <;> simp_all
  case scale c v => cases c <;> simp [step, getXY, hx, hy, setXY] <;> cases s <;> simp_all
  case center c => cases c <;> simp [step, getXY, hx, hy, setXY] <;> cases s <;> simp_all

theorem mapRT_noop (env : Env K) (s : State K) (e : Eff) (he : isMapRT e = true)
    (hr : s.r = none) (ht : s.t = none) : step env s e = s := by
  cases e <;> simp [isMapRT] at he
  case resliceP c k => cases c <;> simp [step, getRT, hr, ht, setRT] <;> cases s <;> simp_all

theorem step_sound {s0 : State K} {env : Env K} {A : Abs} {s : State K} (h : Rel s0 env A s) (e : Eff)
    (hf : (astep A e).fail = false) : Rel s0 env (astep A e) (step env s e) := by
  cases e with
  | dataReshape k =>
    exact ⟨by simp [astep, step, evalShape], h.dx, h.saved, h.x, h.y, h.r, h.t, h.link, h.linkP⟩
  | dataWrite w => exact h
  | setDx v =>
    exact ⟨h.shape, fun hv => aeval_sound h v hv, h.saved, h.x, h.y, h.r, h.t, h.link, h.linkP⟩
  | saveDx i =>
    refine ⟨h.shape, h.dx, fun j hj => ?_, h.x, h.y, h.r, h.t, h.link, h.linkP⟩
    simp only [astep, step, lookupA_cons] at hj ⊢
    by_cases hij : i = j
    · subst hij; simp only [if_true] at hj ⊢; exact h.dx hj
    · have hji : ¬ j = i := fun e => hij e.symm
      simp only [hij, hji, if_false] at hj ⊢; exact h.saved j hj
  | setLatcaled b => exact ⟨h.shape, h.dx, h.saved, h.x, h.y, h.r, h.t, h.link, h.linkP⟩
  | fillXY c => exact afillXY_sound h c hf
  | fillRT c => exact fillRT_sound h c hf
  | freshXY => exact freshXY_sound h
  | freshRT => exact astorePolar_sound h hf
  | reslice c k => exact reslice_sound h c k
  | resliceP c k => exact resliceP_sound h c k
  | scale c v => exact scale_sound h c v
  | center c => exact center_sound h c
  | clearXY c => exact clearXY_sound h c
  | clearRT c => exact clearRT_sound h c
  | opaqueXY c => exact opaqueXY_sound h c
  | opaqueRT c => exact opaqueRT_sound h c
  | guardXY c e =>
    simp only [astep] at hf ⊢
    split at hf
    next hnone =>
      -- certainly empty: the guard is false
      simp only [hnone, if_true]
      have : getXY s c = none := by
        cases c
        · have := h.x; simp only [agetC] at hnone; rw [hnone] at this; exact this
        · have := h.y; simp only [agetC] at hnone; rw [hnone] at this; exact this
      simp only [step, this, Option.isSome_none, Bool.false_eq_true, if_false]
      exact h
    next hnone =>
      simp only [hnone, if_false] at hf ⊢
      split at hf
      next hmap =>
        simp only [hmap, if_true]
        simp only [Bool.and_eq_true] at hmap
        obtain ⟨hl, hm⟩ := hmap
        have hstep : step env s (.guardXY c e) = step env s e := by
          simp only [step]
          split
          · rfl
          next hno =>
            have hlink := h.link hl
            have hx : s.x = none ∧ s.y = none := by
              cases c <;> simp only [getXY] at hno <;> cases hsx : s.x <;> cases hsy : s.y <;> simp_all
            exact (mapXY_noop env s e hm hx.1 hx.2).symm
        rw [hstep]
        cases e <;> simp [isMapXY] at hm
        · exact reslice_sound h _ _
        · exact scale_sound h _ _
        · exact center_sound h _
      next hmap =>
        simp only [hmap, if_false] at hf ⊢
        split at hf
        next hfill =>
          simp only [hfill, if_true]
          simp only [Bool.and_eq_true] at hfill
          obtain ⟨hl, hm⟩ := hfill
          have hlink := h.link hl
          have hstep : step env s (.guardXY c e) = s := by
            cases e <;> simp [isFillXY] at hm
            rename_i c'
            simp only [step]
            split
            next hyes =>
              cases c <;> cases c' <;> simp only [getXY] at hyes <;> cases hsx : s.x <;> cases hsy : s.y <;>
                simp_all [fillXY, getXY]
            · rfl
          rw [hstep]; exact h
        next hfill => simp at hf
  | guardRT c e =>
    simp only [astep] at hf ⊢
    split at hf
    next hnone =>
      simp only [hnone, if_true]
      have : getRT s c = none := by
        cases c
        · have := h.r; simp only [agetP] at hnone; rw [hnone] at this; exact this
        · have := h.t; simp only [agetP] at hnone; rw [hnone] at this; exact this
      simp only [step, this, Option.isSome_none, Bool.false_eq_true, if_false]
      exact h
    next hnone =>
      simp only [hnone, if_false] at hf ⊢
      split at hf
      next hmap =>
        simp only [hmap, if_true]
        simp only [Bool.and_eq_true] at hmap
        obtain ⟨hl, hm⟩ := hmap
        have hstep : step env s (.guardRT c e) = step env s e := by
          simp only [step]
          split
          · rfl
          next hno =>
            have hlink := h.linkP hl
            have hx : s.r = none ∧ s.t = none := by
              cases c <;> simp only [getRT] at hno <;> cases hsx : s.r <;> cases hsy : s.t <;> simp_all
            exact (mapRT_noop env s e hm hx.1 hx.2).symm
        rw [hstep]
        cases e <;> simp [isMapRT] at hm
        exact resliceP_sound h _ _
      next hmap =>
        simp only [hmap, if_false] at hf ⊢
        split at hf
        next hfill =>
          simp only [hfill, if_true]
          simp only [Bool.and_eq_true] at hfill
          obtain ⟨hl, hm⟩ := hfill
          have hlink := h.linkP hl
          have hstep : step env s (.guardRT c e) = s := by
            cases e <;> simp [isFillRT] at hm
            rename_i c'
            simp only [step]
            split
            next hyes =>
              cases c <;> cases c' <;> simp only [getRT] at hyes <;> cases hsx : s.r <;> cases hsy : s.t <;>
                simp_all [getRT]
            · rfl
          rw [hstep]; exact h
        next hfill => simp at hf

theorem afillXY_sticky (A : Abs) (c : XY) (h : A.fail = true) : (afillXY A c).fail = true := by
  unfold afillXY
  cases c <;> simp only [agetC, otherXY] <;> split <;> (try split) <;> simp_all [spoilRT, asetC]

theorem astorePolar_sticky (A : Abs) (h : A.fail = true) : (astorePolar A).fail = true :=
  afillXY_sticky _ .y (afillXY_sticky _ .x h)

theorem astep_sticky (A : Abs) (e : Eff) (h : A.fail = true) : (astep A e).fail = true := by
  induction e generalizing A with
  | fillXY c => exact afillXY_sticky A c h
  | fillRT c =>
    simp only [astep]; split
    · exact astorePolar_sticky A h
    · simp [joinCaches, h]
  | freshRT => exact astorePolar_sticky A h
  | guardXY c e ih =>
    simp only [astep]; split
    · exact h
    · split
      · exact ih A h
      · split
        · exact h
        · rfl
  | guardRT c e ih =>
    simp only [astep]; split
    · exact h
    · split
      · exact ih A h
      · split
        · exact h
        · rfl
  | reslice c k => cases c <;> simp [astep, asetC, h]
  | resliceP c k => cases c <;> simp [astep, asetP, h]
  | scale c v => cases c <;> simp [astep, asetC, spoilRT, h]
  | clearXY c => cases c <;> simp [astep, asetC, spoilRT, h]
  | clearRT c => cases c <;> simp [astep, asetP, h]
  | opaqueXY c => cases c <;> simp [astep, asetC, spoilRT, h]
  | opaqueRT c => cases c <;> simp [astep, asetP, h]
  | _ => simp [astep, spoilRT, h]

theorem foldl_sticky (effs : List Eff) (A : Abs) (h : A.fail = true) : (effs.foldl astep A).fail = true := by
  induction effs generalizing A with
  | nil => exact h
  | cons e rest ih => exact ih _ (astep_sticky A e h)

theorem run_sound {s0 : State K} {env : Env K} (effs : List Eff) {A : Abs} {s : State K} (h : Rel s0 env A s)
    (hf : (effs.foldl astep A).fail = false) : Rel s0 env (effs.foldl astep A) (run env s effs) := by
  induction effs generalizing A s with
  | nil => exact h
  | cons e rest ih =>
    have hfe : (astep A e).fail = false := by
      by_contra hc
      have : (astep A e).fail = true := by simpa using hc
      have := foldl_sticky rest _ this
      simp only [List.foldl_cons] at hf
      rw [this] at hf; cases hf
    exact ih (step_sound h e hfe) hf

/-- **soundness of the analyser**: an effect list accepted by the table-level check preserves the coherence
    invariant from every state, for every argument value, every slice and every pad shape -/
theorem wellBehaved_sound (effs : List Eff) (hwb : WellBehaved effs = true) (env : Env K) (s : State K)
    (h : Inv s) : Inv (run env s effs) := by
  have hacc : accept (effs.foldl astep ainit) = true := hwb
  have hf : (effs.foldl astep ainit).fail = false := by
    simp only [accept, Bool.and_eq_true, Bool.not_eq_true'] at hacc
    exact hacc.1.1.1.1.1.1
  exact accept_sound hacc (run_sound effs (rel_init s env h) hf)

theorem rel_unknown (s0 : State K) (env : Env K) : Rel s0 env aunknown s0 :=
  ⟨rfl, fun _ => rfl, fun i hi => by simp [aunknown, lookupA] at hi, trivial, trivial, trivial, trivial,
    fun h => by simp [aunknown] at h, fun h => by simp [aunknown] at h⟩

/-- a constructor whose effect list is accepted from no knowledge establishes the invariant from ANY state -/
theorem wellBehavedInit_sound (effs : List Eff) (hwb : WellBehavedInit effs = true) (env : Env K) (s : State K) :
    Inv (run env s effs) := by
  have hacc : accept (effs.foldl astep aunknown) = true := hwb
  have hf : (effs.foldl astep aunknown).fail = false := by
    simp only [accept, Bool.and_eq_true, Bool.not_eq_true'] at hacc
    exact hacc.1.1.1.1.1.1
  exact accept_sound hacc (run_sound effs (rel_unknown s env) hf)

end C12
