import PrysmVerif.Lemmas.C07Field
import PrysmVerif.Generated.C07
/-! # C07 — 2D-Q (Forbes) polynomials: the translated source computes the hand model

`abc_q2d` (A.3), `prysm.mathops.gamma`, `G_q2d` (A.15), `F_q2d` (A.13), `f_q2d` / `g_q2d` (A.18) and the whole body of `Q2d`
(azimuthal prefix, the `m = 1` seeds `P_2, P_3, Q_2, Q_3`, both loops) as generated from the source, against `Model.C07.q2d*`,
for EVERY order.  Every proof has a first branch that accepts the fallback text (item not translatable).
-/
set_option linter.unusedVariables false
set_option linter.unusedSimpArgs false
set_option linter.unusedTactic false
set_option linter.unreachableTactic false

namespace C07L
open Model.C07
set_option linter.unusedSectionVars false
variable {K : Type} [Field K] [CharZero K]

/-- translated `abc_q2d` is the hand transcription of Forbes (A.3), all `n m` -/
theorem gen_abc_q2d (n m : K) : Generated.C07.abcQ2d n m = q2dAbcK n m := by
  first
  | (show Model.C07.q2dAbcK _ _ = _; rfl)
  | (simp only [Generated.C07.abcQ2d, q2dAbcK, ofInt_eq, nat_eq, npow_eq]
     refine Prod.ext ?_ (Prod.ext ?_ ?_) <;> simp <;> ring)

theorem q2dGamma_one (m : ℕ) : (q2dGamma 1 m : K) = q2dGamma1 m := by simp [q2dGamma]
theorem q2dGamma_succ_succ (n m : ℕ) : (q2dGamma (n+2) m : K)
    = (((n:K)+2) * (2 * m + 2 * ((n:K)+2) - 3)) / (((m:K) + ((n:K)+2) - 3) * (2 * ((n:K)+2) - 1)) * q2dGamma (n+1) m := by
  simp [q2dGamma]

/-- translated `prysm.mathops.gamma` (recursive calls read as the model's function) is the model's `γ_n^m`, all `n ≥ 1`, `m ≥ 2` -/
theorem gen_q2d_gamma (n m : ℕ) (hn : 1 ≤ n) (hm : 2 ≤ m) : Generated.C07.gammaBody (K := K) (n:ℤ) (m:ℤ) = q2dGamma n m := by
  first
  | (show Model.C07.q2dGammaI _ _ = _; simp [q2dGammaI])
  | (unfold Generated.C07.gammaBody
     match n, hn with
     | 1, _ =>
       match m, hm with
       | 2, _ => simp [q2dGamma, q2dGamma1]
       | m+3, _ =>
         have h1 : ¬ (((1:ℕ):ℤ) = 1 ∧ ((m+3:ℕ):ℤ) = 2) := by omega
         have h2 : (((1:ℕ):ℤ) = 1 ∧ ((m+3:ℕ):ℤ) > 2) := by omega
         have e : (((m+3:ℕ):ℤ) - 1).toNat = m + 2 := by omega
         simp only [if_neg h1, if_pos h2, q2dGammaI, e, q2dGamma_one, q2dGamma1, ofInt_eq, nat_eq]
         congr 1
         push_cast; ring_nf
     | n+2, _ =>
       have h1 : ¬ (((n+2:ℕ):ℤ) = 1 ∧ (m:ℤ) = 2) := by omega
       have h2 : ¬ (((n+2:ℕ):ℤ) = 1 ∧ (m:ℤ) > 2) := by omega
       have e : (((n+2:ℕ):ℤ) - 1).toNat = n + 1 := by omega
       simp only [if_neg h1, if_neg h2, q2dGammaI, e, q2dGamma_succ_succ, ofInt_eq, Int.toNat_natCast]
       congr 1
       push_cast; ring_nf)


/-- translated `G_q2d` (Forbes A.15; `factorial`, `factorial2`, `gamma` read as the model's functions) is the model's `G_n^m`, all `n`, `m ≥ 1` -/
theorem gen_q2d_G (n m : ℕ) (hm : 1 ≤ m) : Generated.C07.q2dGBody (K := K) (n:ℤ) (m:ℤ) = q2dG n m := by
  first
  | (show Model.C07.q2dGI _ _ = _; simp [q2dGI])
  | (have e1 : ((2:ℤ) * (m:ℤ) - 1).toNat = 2 * m - 1 := by omega
     have e2 : ((m:ℤ) + 1).toNat = m + 1 := by omega
     have e3 : ((m:ℤ) - 1).toNat = m - 1 := by omega
     unfold Generated.C07.q2dGBody q2dG
     simp only []
     split_ifs <;> first
       | (exfalso; omega)
       | (simp [fact2I, factI, e1, e2, e3]; done)
       | (simp only [ofInt_eq, nat_eq, npow_eq, ofFrac_eq]; push_cast; simp only [pow_two]; first | done | ring1)
       | (simp only [ofInt_eq, nat_eq, q2dGammaI, Int.toNat_natCast]; congr 1; push_cast; first | done | ring1))

/-- translated `F_q2d` (Forbes A.13) is the model's `F_n^m`, all `n`, `m ≥ 1` -/
theorem gen_q2d_F (n m : ℕ) (hm : 1 ≤ m) : Generated.C07.q2dFBody (K := K) (n:ℤ) (m:ℤ) = q2dF n m := by
  first
  | (show Model.C07.q2dFI _ _ = _; simp [q2dFI])
  | (have e1 : ((2:ℤ) * (m:ℤ) - 3).toNat = 2 * m - 3 := by omega
     have e2 : ((m:ℤ) + 1).toNat = m + 1 := by omega
     have e3 : ((m:ℤ) - 1).toNat = m - 1 := by omega
     unfold Generated.C07.q2dFBody q2dF
     simp only []
     split_ifs <;> first
       | (exfalso; omega)
       | (simp; done)
       | (simp [fact2I, factI, e1, e2, e3, pow_two]; done)
       | (simp only [ofInt_eq, nat_eq, npow_eq, ofFrac_eq]; push_cast; simp only [pow_two]; first | done | ring1)
       | (simp only [ofInt_eq, nat_eq, npow_eq, q2dGammaI, Int.toNat_natCast]; congr 1; push_cast; simp only [pow_two]; first | done | ring1))

theorem q2df_zero (sqrt : K → K) (m : ℕ) : q2df sqrt 0 m = sqrt (q2dF 0 m) := by simp [q2df, q2dFG]
theorem q2df_succ (sqrt : K → K) (n m : ℕ) : q2df sqrt (n+1) m = sqrt (q2dF (n+1) m - q2dg sqrt n m * q2dg sqrt n m) := by
  simp [q2df, q2dg, q2dFG]
theorem q2dg_eq (sqrt : K → K) (n m : ℕ) : q2dg sqrt n m = q2dG n m / q2df sqrt n m := by
  cases n <;> simp [q2df, q2dg, q2dFG]

/-- the bodies of `f_q2d`, `g_q2d` (Forbes A.18; calls read as the model's functions) return the model's `f_n^m`, `g_n^m`, all `n m` -/
theorem gen_q2d_fg (sqrt : K → K) (n m : ℕ) :
    Generated.C07.q2dgBody sqrt (n:ℤ) (m:ℤ) = q2dg sqrt n m ∧ Generated.C07.q2dfBody sqrt (n:ℤ) (m:ℤ) = q2df sqrt n m := by
  refine ⟨?_, ?_⟩
  · first
    | (show Model.C07.q2dgI _ _ _ = _; simp [q2dgI])
    | (simp [Generated.C07.q2dgBody, q2dGI, q2dfI, q2dg_eq])
  · first
    | (show Model.C07.q2dfI _ _ _ = _; simp [q2dfI])
    | (match n with
       | 0 => simp [Generated.C07.q2dfBody, q2dFI, q2df_zero]
       | n+1 =>
         have h0 : ¬ (((n+1:ℕ):ℤ) = 0) := by omega
         have e : (((n+1:ℕ):ℤ) - 1).toNat = n := by omega
         have h0' : ¬ ((n:ℤ) + 1 = 0) := by omega
         have e' : ((n:ℤ) + 1 - 1).toNat = n := by omega
         simp [Generated.C07.q2dfBody, h0, h0', q2dFI, q2dgI, e, e', q2df_succ, pow_two])

end C07L

namespace C07L
open Model.C07
set_option linter.unusedSectionVars false
variable {K : Type} [Field K] [CharZero K]

theorem q2dPQ_zero (sqrt : K → K) (a : ℕ) (x : K) :
    q2dPQ sqrt a x 0 = (1 / 2, q2dP1 a x, 1 / (2 * q2df sqrt 0 a)) := by simp [q2dPQ]
theorem q2dPQ_succ (sqrt : K → K) (a : ℕ) (x : K) (k : ℕ) :
    q2dPQ sqrt a x (k+1) = ((q2dPQ sqrt a x k).2.1, q2dPnext a k x (q2dPQ sqrt a x k).1 (q2dPQ sqrt a x k).2.1,
      ((q2dPQ sqrt a x k).2.1 - q2dg sqrt k a * (q2dPQ sqrt a x k).2.2) * (1 / q2df sqrt (k+1) a)) := by simp [q2dPQ]

/-- one turn of the loop of `Q2d` in terms of the model's state, in the range where (A.2) is used -/
theorem q2d_step (sqrt : K → K) (a j : ℕ) (x : K) (h0 : ¬ (a = 1 ∧ j = 0)) (h1 : ¬ (a = 1 ∧ j = 1)) :
    ((q2dAbcK ((j:K) + 1) (a:K)).1 + (q2dAbcK ((j:K) + 1) (a:K)).2.1 * x) * (q2dPQ sqrt a x j).2.1
        - (q2dAbcK ((j:K) + 1) (a:K)).2.2 * (q2dPQ sqrt a x j).1 = (q2dPQ sqrt a x (j+1)).2.1 := by
  rw [q2dPQ_succ]
  simp only [q2dPnext, if_neg h0, if_neg h1, nat_eq]
  push_cast
  rfl


/-- one turn of the loop of `Q2d` on values: new `P_n`, new `Q_n`, shifted `P_{n-1}` -/
theorem q2d_loop_step (sqrt : K → K) (a j : ℕ) (x : K) (h0 : ¬ (a = 1 ∧ j = 0)) (h1 : ¬ (a = 1 ∧ j = 1))
    (T : K × K × K) (hT : T = q2dAbcK ((j:K) + 1) (a:K)) (p1 p2 q1 g f : K)
    (hp2 : p2 = (q2dPQ sqrt a x j).1) (hp1 : p1 = (q2dPQ sqrt a x j).2.1) (hq1 : q1 = (q2dPQ sqrt a x (j+1)).2.2)
    (hg : g = q2dg sqrt (j+1) a) (hf : f = q2df sqrt (j+2) a) :
    p1 = (q2dPQ sqrt a x (j+1)).1 ∧ (T.1 + T.2.1 * x) * p1 - T.2.2 * p2 = (q2dPQ sqrt a x (j+1)).2.1
    ∧ ((T.1 + T.2.1 * x) * p1 - T.2.2 * p2 - g * q1) * (1 / f) = (q2dPQ sqrt a x (j+2)).2.2 := by
  have e := q2d_step sqrt a j x h0 h1
  subst hT hp2 hp1 hq1 hg hf
  refine ⟨by rw [q2dPQ_succ], e, ?_⟩
  rw [e, q2dPQ_succ sqrt a x (j+1)]

theorem gen_q2d_aux (sinf cosf sqrt : K → K) (hq : ∀ (n : ℕ) (x : K), Generated.C07.qbfs sqrt (n:ℤ) x = qbfs sqrt n x)
    (n : ℕ) (m : ℤ) (r t : K) :
    Generated.C07.q2d sinf cosf sqrt (n:ℤ) m r t
      = Model.C07.q2d sqrt n m r (if m < 0 then sinf ((m.natAbs:K) * t) else cosf ((m.natAbs:K) * t)) := by
  first
  | (show Model.C07.q2d _ _ _ _ _ = _
     simp; done)
  | (
     unfold Generated.C07.q2d
     extract_lets u x mabs prefS prefC st mm pref P0 P1a P1b stP1 P1 f0 Q0 g0 f1 Q1 P2 P3 g1 f2 Q2 g2 f3 Q3
       t0 t1 pm2 pm1 qm1 lo4 loop4 A4 B4 C4 Pn4 Pm14 Pm24 Qn4 Qm14 fn4 gm14
       t0' t1' pm2' pm1' qm1' lo2 loop2 A2 B2 C2 Pn2 Pm12 Pm22 Qn2 Qm12 fn2 gm12
     by_cases hm0 : m = 0
     · subst hm0; simp [q2d, hq]
     · rw [if_neg hm0]
       set a := m.natAbs with ha
       have ha1 : 1 ≤ a := by omega
       have hmm : mm = (a:ℤ) := by
         simp only [mm, st]; split_ifs <;> simp only [mabs] <;> split_ifs <;> omega
       have hx : x = r * r := by simp [x, u, pow_two]
       have hpref : pref = r ^ a * (if m < 0 then sinf ((a:K) * t) else cosf ((a:K) * t)) := by
         by_cases hneg : m < 0
         · have e1 : (-m).toNat = a := by omega
           have e2 : ((-m : ℤ) : K) = (a:K) := by
             have : (-m : ℤ) = (a:ℤ) := by omega
             rw [this]; simp
           simp [pref, st, hneg, prefS, mabs, u, e1, e2]
         · have e1 : m.toNat = a := by omega
           have e2 : ((m : ℤ) : K) = (a:K) := by
             have : (m : ℤ) = (a:ℤ) := by omega
             rw [this]; simp
           simp [pref, st, hneg, prefC, u, e1, e2]
       have hP1 : P1 = q2dP1 a x := by
         simp only [P1, stP1, P1a, P1b, hmm, q2dP1]
         by_cases h1 : a = 1
         · have : ((a:ℤ) = 1) := by omega
           simp [h1]
         · have : ¬ ((a:ℤ) = 1) := by omega
           simp [h1, this]
       have hQ0 : Q0 = (q2dPQ sqrt a x 0).2.2 := by
         simp [Q0, f0, hmm, q2dPQ_zero, q2dfI]
       have hQ1 : Q1 = (q2dPQ sqrt a x 1).2.2 := by
         rw [q2dPQ_succ]
         simp [Q1, hP1, g0, f1, hQ0, hmm, q2dPQ_zero, q2dfI, q2dgI]
       have hR : q2d sqrt n m r (if m < 0 then sinf ((a:K) * t) else cosf ((a:K) * t))
           = (q2dPQ sqrt a x n).2.2 * pref := by
         simp [q2d, hm0, q2dRadial, hpref, hx, ← ha]
       rw [hR]
       -- the step of either loop, on a state that satisfies the invariant at index `j` (`nn = j + 2`)
       have hstep : ∀ (lo : ℤ) (j0 : ℕ), lo = (j0:ℤ) + 2 → (∀ j, j0 ≤ j → ¬ (a = 1 ∧ j = 0) ∧ ¬ (a = 1 ∧ j = 1)) →
           ∀ (k : ℕ) (s : K × K × K × K × K × K × K × K × K × K),
             (Generated.C07.q2d_st_Pnm2 s = (q2dPQ sqrt a x (j0 + k)).1 ∧ Generated.C07.q2d_st_Pnm1 s = (q2dPQ sqrt a x (j0 + k)).2.1
               ∧ Generated.C07.q2d_st_Qnm1 s = (q2dPQ sqrt a x (j0 + k + 1)).2.2
               ∧ (1 ≤ k → Generated.C07.q2d_st_Qn s = (q2dPQ sqrt a x (j0 + k + 1)).2.2)) →
             ∀ s', s' = (fun (nn : ℤ) (s : K × K × K × K × K × K × K × K × K × K) =>
                     let t_A_B_C := Generated.C07.abcQ2d (Num.ofInt (nn - 1)) (Num.ofInt mm)
                     let Pn_ := (t_A_B_C.1 + t_A_B_C.2.1 * x) * Generated.C07.q2d_st_Pnm1 s - t_A_B_C.2.2 * Generated.C07.q2d_st_Pnm2 s
                     let Qn_ := (Pn_ - q2dgI sqrt (nn - 1) mm * Generated.C07.q2d_st_Qnm1 s) * (Num.ofInt 1 / q2dfI sqrt nn mm)
                     (t_A_B_C.1, t_A_B_C.2.1, t_A_B_C.2.2, Pn_, Pn_, Generated.C07.q2d_st_Pnm1 s, Qn_, Qn_, q2dfI sqrt nn mm, q2dgI sqrt (nn - 1) mm))
                   (lo + k) s →
             (Generated.C07.q2d_st_Pnm2 s' = (q2dPQ sqrt a x (j0 + (k+1))).1 ∧ Generated.C07.q2d_st_Pnm1 s' = (q2dPQ sqrt a x (j0 + (k+1))).2.1
               ∧ Generated.C07.q2d_st_Qnm1 s' = (q2dPQ sqrt a x (j0 + (k+1) + 1)).2.2
               ∧ (1 ≤ k+1 → Generated.C07.q2d_st_Qn s' = (q2dPQ sqrt a x (j0 + (k+1) + 1)).2.2)) := by
         rintro lo j0 rfl hgen k s ⟨hs1, hs2, hs3, -⟩ s' rfl
         have e1 : ((((j0:ℤ) + 2 + (k:ℤ) - 1 : ℤ)) : K) = ((j0 + k : ℕ) : K) + 1 := by push_cast; ring
         have e2 : ((j0:ℤ) + 2 + (k:ℤ) - 1).toNat = j0 + k + 1 := by omega
         have e3 : ((j0:ℤ) + 2 + (k:ℤ)).toNat = j0 + k + 2 := by omega
         have e4 : ((mm : ℤ) : K) = (a:K) := by rw [hmm]; simp
         have e5 : mm.toNat = a := by omega
         obtain ⟨r1, r2, r3⟩ := q2d_loop_step sqrt a (j0 + k) x (hgen _ (by omega)).1 (hgen _ (by omega)).2
           (Generated.C07.abcQ2d (Num.ofInt ((j0:ℤ) + 2 + (k:ℤ) - 1)) (Num.ofInt mm)) (by rw [gen_abc_q2d, ofInt_eq, ofInt_eq, e1, e4])
           (Generated.C07.q2d_st_Pnm1 s) (Generated.C07.q2d_st_Pnm2 s) (Generated.C07.q2d_st_Qnm1 s)
           (q2dgI sqrt ((j0:ℤ) + 2 + (k:ℤ) - 1) mm) (q2dfI sqrt ((j0:ℤ) + 2 + (k:ℤ)) mm) hs1 hs2 hs3
           (by simp only [q2dgI, e2, e5]) (by simp only [q2dfI, e3, e5])
         dsimp only [Generated.C07.q2d_st_Pnm2, Generated.C07.q2d_st_Pnm1, Generated.C07.q2d_st_Qnm1, Generated.C07.q2d_st_Qn] at r1 r2 r3 ⊢
         have i1 : j0 + (k+1) = j0 + k + 1 := by omega
         have i2 : j0 + (k+1) + 1 = j0 + k + 2 := by omega
         have o1 : (Num.ofInt 1 : K) = 1 := by simp
         rw [i2, i1, o1]
         exact ⟨r1, r2, r3, fun _ => r3⟩
       obtain rfl | rfl | ⟨n', rfl⟩ : n = 0 ∨ n = 1 ∨ ∃ k, n = k + 2 := by
         rcases n with _ | _ | k
         · exact Or.inl rfl
         · exact Or.inr (Or.inl rfl)
         · exact Or.inr (Or.inr ⟨k, rfl⟩)
       · simp [hQ0]
       · simp [hQ1]
       · have hn0 : ¬ (((n'+2:ℕ):ℤ) = 0) := by omega
         have hn1 : ¬ (((n'+2:ℕ):ℤ) = 1) := by omega
         rw [if_neg hn0, if_neg hn1]
         by_cases h1 : a = 1
         · have hmm1 : mm = 1 := by omega
           rw [if_pos hmm1]
           have hP2 : P2 = (q2dPQ sqrt a x 1).2.1 := by
             rw [q2dPQ_succ]; simp [P2, q2dPnext, h1]
           have hP3 : P3 = (q2dPQ sqrt a x 2).2.1 := by
             rw [q2dPQ_succ]; simp [P3, q2dPnext, h1]
           have hQ2 : Q2 = (q2dPQ sqrt a x 2).2.2 := by
             rw [q2dPQ_succ sqrt a x 1]
             simp [Q2, hP2, g1, f2, hQ1, hmm, q2dfI, q2dgI]
           have hQ3 : Q3 = (q2dPQ sqrt a x 3).2.2 := by
             rw [q2dPQ_succ sqrt a x 2]
             simp [Q3, hP3, g2, f3, hQ2, hmm, q2dfI, q2dgI]
           obtain rfl | rfl | ⟨n, rfl⟩ : n' = 0 ∨ n' = 1 ∨ ∃ k, n' = k + 2 := by
             rcases n' with _ | _ | k
             · exact Or.inl rfl
             · exact Or.inr (Or.inl rfl)
             · exact Or.inr (Or.inr ⟨k, rfl⟩)
           · simp [hQ2]
           · simp [hQ3]
           · have hn2 : ¬ (((n+2+2:ℕ):ℤ) = 2) := by omega
             have hn3 : ¬ (((n+2+2:ℕ):ℤ) = 3) := by omega
             rw [if_neg hn2, if_neg hn3]
             congr 1
             simp only [Qn4, loop4, lo4]
             rw [show ((n+2+2:ℕ):ℤ) + 1 = 4 + ((n+1:ℕ):ℤ) by push_cast; ring]
             rw [show n + 2 + 2 = 2 + (n + 1) + 1 by omega]
             refine (forRange_induct (fun k s =>
                 Generated.C07.q2d_st_Pnm2 s = (q2dPQ sqrt a x (2 + k)).1 ∧ Generated.C07.q2d_st_Pnm1 s = (q2dPQ sqrt a x (2 + k)).2.1
                 ∧ Generated.C07.q2d_st_Qnm1 s = (q2dPQ sqrt a x (2 + k + 1)).2.2
                 ∧ (1 ≤ k → Generated.C07.q2d_st_Qn s = (q2dPQ sqrt a x (2 + k + 1)).2.2)) 4 _ _ ?_ ?_ (n+1)).2.2.2 (by omega)
             · dsimp only [Generated.C07.q2d_st_Pnm2, Generated.C07.q2d_st_Pnm1, Generated.C07.q2d_st_Qnm1, Generated.C07.q2d_st_Qn]
               refine ⟨?_, ?_, ?_, fun h => absurd h (by omega)⟩
               · simp only [pm2, t0, hP2]; rw [q2dPQ_succ sqrt a x 1]
               · simp only [pm1, t1, hP3]
               · simp only [qm1, hQ3]
             · intro k s hs
               exact hstep 4 2 (by norm_num) (fun j hj => ⟨by omega, by omega⟩) k s hs _ rfl
         · have hmm1 : ¬ (mm = 1) := by omega
           rw [if_neg hmm1]
           congr 1
           simp only [Qn2, loop2, lo2]
           rw [show ((n'+2:ℕ):ℤ) + 1 = 2 + ((n'+1:ℕ):ℤ) by push_cast; ring]
           rw [show n' + 2 = 0 + (n' + 1) + 1 by omega]
           refine (forRange_induct (fun k s =>
               Generated.C07.q2d_st_Pnm2 s = (q2dPQ sqrt a x (0 + k)).1 ∧ Generated.C07.q2d_st_Pnm1 s = (q2dPQ sqrt a x (0 + k)).2.1
               ∧ Generated.C07.q2d_st_Qnm1 s = (q2dPQ sqrt a x (0 + k + 1)).2.2
               ∧ (1 ≤ k → Generated.C07.q2d_st_Qn s = (q2dPQ sqrt a x (0 + k + 1)).2.2)) 2 _ _ ?_ ?_ (n'+1)).2.2.2 (by omega)
           · dsimp only [Generated.C07.q2d_st_Pnm2, Generated.C07.q2d_st_Pnm1, Generated.C07.q2d_st_Qnm1, Generated.C07.q2d_st_Qn]
             refine ⟨?_, ?_, ?_, fun h => absurd h (by omega)⟩
             · simp [pm2', t0', P0, q2dPQ_zero]
             · simp [pm1', t1', hP1, q2dPQ_zero]
             · simp only [qm1', hQ1]
           · intro k s hs
             exact hstep 2 0 (by norm_num) (fun j hj => ⟨by omega, by omega⟩) k s hs _ rfl)

end C07L
