import PrysmVerif.Lemmas.C10Pack
import Mathlib.LinearAlgebra.Matrix.NonsingularInverse
/-!
# C10 — the normal equations of the masked least-squares problem
-/
set_option linter.unusedSectionVars false
set_option linter.unusedSimpArgs false
namespace C10L
open Model.C10

section Normal
variable {F : Type} [Field F] [LinearOrder F] [IsStrictOrderedRing F]
variable {ι κ : Type} [Fintype κ]

/-- the Gram form: `Σ_k v_k (Σ_i M_k(i) Σ_j v_j M_j(i)) = Σ_i (Σ_k v_k M_k(i))²` -/
theorem gram_quadratic (V : Finset ι) (M : κ → ι → F) (v : κ → F) :
    ∑ k, v k * ∑ i ∈ V, M k i * ∑ j, v j * M j i = ∑ i ∈ V, (∑ k, v k * M k i) ^ 2 := by
  simp only [Finset.mul_sum]
  rw [Finset.sum_comm]
  apply Finset.sum_congr rfl
  intro i _
  rw [pow_two, Finset.sum_mul]
  apply Finset.sum_congr rfl
  intro k _
  rw [Finset.mul_sum]; apply Finset.sum_congr rfl; intro j _; ring

/-- modes independent on the valid samples ⇒ the Gram matrix `AᵀA` has a trivial kernel -/
theorem gram_kernel_trivial (V : Finset ι) (M : κ → ι → F)
    (hindep : ∀ v : κ → F, (∀ i ∈ V, ∑ k, v k * M k i = 0) → v = 0) (v : κ → F)
    (hG : ∀ k, ∑ i ∈ V, M k i * ∑ j, v j * M j i = 0) : v = 0 := by
  apply hindep
  have hq := gram_quadratic V M v
  have hz : ∑ i ∈ V, (∑ k, v k * M k i) ^ 2 = 0 := by
    rw [← hq]; apply Finset.sum_eq_zero; intro k _; rw [hG k, mul_zero]
  have hall := (Finset.sum_eq_zero_iff_of_nonneg (fun i _ => sq_nonneg _)).mp hz
  intro i hi
  exact pow_eq_zero_iff (two_ne_zero) |>.mp (hall i hi)

/-- **the normal equations have at most one solution** when the modes are independent on the valid samples — for ANY data -/
theorem normal_eq_unique (V : Finset ι) (M : κ → ι → F) (d : ι → F)
    (hindep : ∀ v : κ → F, (∀ i ∈ V, ∑ k, v k * M k i = 0) → v = 0) (w w' : κ → F)
    (hN : ∀ k, ∑ i ∈ V, M k i * (∑ j, w j * M j i - d i) = 0)
    (hN' : ∀ k, ∑ i ∈ V, M k i * (∑ j, w' j * M j i - d i) = 0) : w = w' := by
  have hv : (fun k => w k - w' k) = 0 := by
    apply gram_kernel_trivial V M hindep
    intro k
    have e : ∑ i ∈ V, M k i * ∑ j, (w j - w' j) * M j i
        = ∑ i ∈ V, M k i * (∑ j, w j * M j i - d i) - ∑ i ∈ V, M k i * (∑ j, w' j * M j i - d i) := by
      rw [← Finset.sum_sub_distrib]
      apply Finset.sum_congr rfl
      intro i _
      have : ∑ j, (w j - w' j) * M j i = ∑ j, w j * M j i - ∑ j, w' j * M j i := by
        rw [← Finset.sum_sub_distrib]; apply Finset.sum_congr rfl; intro j _; ring
      rw [this]; ring
    rw [e, hN k, hN' k, sub_zero]
  funext k
  have := congrFun hv k
  simpa [sub_eq_zero] using this

/-- **solving the normal equations inverts synthesis**: data synthesised from the modes on the valid samples, modes independent
there ⇒ every solution of `Aᵀ(A w - d) = 0` IS the synthesising coefficient vector -/
theorem normal_eq_recovers (V : Finset ι) (M : κ → ι → F) (d : ι → F) (c : κ → F)
    (hsyn : ∀ i ∈ V, d i = ∑ k, c k * M k i)
    (hindep : ∀ v : κ → F, (∀ i ∈ V, ∑ k, v k * M k i = 0) → v = 0) (w : κ → F)
    (hN : ∀ k, ∑ i ∈ V, M k i * (∑ j, w j * M j i - d i) = 0) : w = c :=
  (lstsq_recovers V M d c hsyn hindep).2 w (normal_eq_minimises V M d w hN c)

/-- the cost along a line: `cost (w + t e) = cost w + t² Σ (e·M)² + 2 t Σ (e·M)(w·M - d)` -/
theorem cost_along_line (V : Finset ι) (M : κ → ι → F) (d : ι → F) (w e : κ → F) (t : F) :
    lsqCost V M d (fun k => w k + t * e k) =
      lsqCost V M d w + t ^ 2 * ∑ i ∈ V, (∑ k, e k * M k i) ^ 2
        + 2 * t * ∑ i ∈ V, (∑ k, e k * M k i) * (∑ k, w k * M k i - d i) := by
  unfold lsqCost
  rw [Finset.mul_sum, Finset.mul_sum, ← Finset.sum_add_distrib, ← Finset.sum_add_distrib]
  apply Finset.sum_congr rfl
  intro i _
  have : ∑ k, (w k + t * e k) * M k i = ∑ k, w k * M k i + t * ∑ k, e k * M k i := by
    rw [Finset.mul_sum, ← Finset.sum_add_distrib]; apply Finset.sum_congr rfl; intro k _; ring
  rw [this]; ring

/-- **least squares ⇒ normal equations**: a minimiser of the masked cost satisfies `Aᵀ(A w - d) = 0` (the converse of
`normal_eq_minimises`; no independence needed) -/
theorem minimiser_normal_eq [DecidableEq κ] (V : Finset ι) (M : κ → ι → F) (d : ι → F) (w : κ → F)
    (hmin : ∀ v, lsqCost V M d w ≤ lsqCost V M d v) (k : κ) :
    ∑ i ∈ V, M k i * (∑ j, w j * M j i - d i) = 0 := by
  set e : κ → F := fun j => if j = k then 1 else 0 with he
  have hek : ∀ i, ∑ j, e j * M j i = M k i := by
    intro i; simp [he, Finset.sum_ite_eq']
  set a : F := ∑ i ∈ V, (M k i) ^ 2 with ha
  set b : F := ∑ i ∈ V, M k i * (∑ j, w j * M j i - d i) with hb
  have ha0 : 0 ≤ a := Finset.sum_nonneg (fun i _ => sq_nonneg _)
  have line : ∀ t : F, 0 ≤ t ^ 2 * a + 2 * t * b := by
    intro t
    have h1 := hmin (fun j => w j + t * e j)
    rw [cost_along_line] at h1
    simp only [hek] at h1
    linarith
  have hpos : 0 < a + 1 := by linarith
  have h := line (-b / (a + 1))
  have e2 : (-b / (a + 1)) ^ 2 * a + 2 * (-b / (a + 1)) * b = -(b ^ 2 * (a + 2)) / (a + 1) ^ 2 := by
    field_simp; ring
  rw [e2] at h
  have hden : 0 < (a + 1) ^ 2 := by positivity
  have hnum : 0 ≤ -(b ^ 2 * (a + 2)) := by
    have := (div_nonneg_iff).mp h
    rcases this with ⟨h1, _⟩ | ⟨_, h2⟩
    · exact h1
    · exact absurd h2 (not_le.mpr hden)
  have hb2 : b ^ 2 * (a + 2) ≤ 0 := by linarith
  have h2 : 0 < a + 2 := by linarith
  have : b ^ 2 ≤ 0 := by
    by_contra hc
    have hc := not_le.mp hc
    have := mul_pos hc h2
    linarith
  have : b ^ 2 = 0 := le_antisymm this (sq_nonneg b)
  exact pow_eq_zero_iff (two_ne_zero) |>.mp this

/-- **minimiser ⇔ normal equations** -/
theorem minimiser_iff_normal_eq [DecidableEq κ] (V : Finset ι) (M : κ → ι → F) (d : ι → F) (w : κ → F) :
    (∀ v, lsqCost V M d w ≤ lsqCost V M d v) ↔ ∀ k, ∑ i ∈ V, M k i * (∑ j, w j * M j i - d i) = 0 :=
  ⟨fun h k => minimiser_normal_eq V M d w h k, fun h v => normal_eq_minimises V M d w h v⟩

/-- **the fit is well defined for any data**: modes independent on the valid samples ⇒ the normal equations have exactly one
solution (the Gram matrix is invertible), and it is the unique minimiser of the masked cost -/
theorem lstsq_exists_unique [DecidableEq κ] (V : Finset ι) (M : κ → ι → F) (d : ι → F)
    (hindep : ∀ v : κ → F, (∀ i ∈ V, ∑ k, v k * M k i = 0) → v = 0) :
    ∃! w : κ → F, ∀ v, lsqCost V M d w ≤ lsqCost V M d v := by
  -- Gram matrix and right-hand side
  let G : Matrix κ κ F := fun k j => ∑ i ∈ V, M k i * M j i
  let rhs : κ → F := fun k => ∑ i ∈ V, M k i * d i
  have hGv : ∀ (v : κ → F) k, G.mulVec v k = ∑ i ∈ V, M k i * ∑ j, v j * M j i := by
    intro v k
    simp only [Matrix.mulVec, dotProduct, G]
    simp only [Finset.sum_mul, Finset.mul_sum]
    rw [Finset.sum_comm]
    apply Finset.sum_congr rfl; intro i _
    apply Finset.sum_congr rfl; intro j _
    ring
  have hinj : Function.Injective G.mulVec := by
    intro v v' hvv
    have : (fun k => v k - v' k) = 0 := by
      apply gram_kernel_trivial V M hindep
      intro k
      have h1 := congrFun hvv k
      rw [hGv, hGv] at h1
      have : ∑ i ∈ V, M k i * ∑ j, (v j - v' j) * M j i
          = ∑ i ∈ V, M k i * ∑ j, v j * M j i - ∑ i ∈ V, M k i * ∑ j, v' j * M j i := by
        rw [← Finset.sum_sub_distrib]; apply Finset.sum_congr rfl; intro i _
        have : ∑ j, (v j - v' j) * M j i = ∑ j, v j * M j i - ∑ j, v' j * M j i := by
          rw [← Finset.sum_sub_distrib]; apply Finset.sum_congr rfl; intro j _; ring
        rw [this]; ring
      rw [this, h1, sub_self]
    funext k
    have := congrFun this k
    simpa [sub_eq_zero] using this
  have hunit : IsUnit G := Matrix.mulVec_injective_iff_isUnit.mp hinj
  have hdet : IsUnit G.det := (Matrix.isUnit_iff_isUnit_det G).mp hunit
  let w : κ → F := G⁻¹.mulVec rhs
  have hw : G.mulVec w = rhs := by
    simp only [w, Matrix.mulVec_mulVec, Matrix.mul_nonsing_inv G hdet, Matrix.one_mulVec]
  have hN : ∀ k, ∑ i ∈ V, M k i * (∑ j, w j * M j i - d i) = 0 := by
    intro k
    have h1 := congrFun hw k
    rw [hGv] at h1
    simp only [mul_sub, Finset.sum_sub_distrib]
    rw [h1]; simp [rhs]
  refine ⟨w, fun v => normal_eq_minimises V M d w hN v, ?_⟩
  intro w' hw'
  exact normal_eq_unique V M d hindep w' w (fun k => minimiser_normal_eq V M d w' hw' k) hN
end Normal
/-! ## the executed re-check (`Model.C10.normalResidual`, a list program) implies the abstract normal equations -/
section Bridge
variable {R : Type} [CommRing R] [Div R]

theorem dot_eq_sum : ∀ (a b : List R) (n : Nat), a.length = n → b.length = n →
    dot a b = ∑ i ∈ Finset.range n, nth a i * nth b i := by
  intro a
  induction a with
  | nil => intro b n ha hb; simp at ha; subst ha; simp [dot]
  | cons x xs ih =>
    intro b n ha hb
    cases b with
    | nil => simp at hb; subst hb; simp at ha
    | cons y ys =>
      cases n with
      | zero => simp at ha
      | succ m =>
        simp only [List.length_cons, Nat.add_right_cancel_iff] at ha hb
        rw [Finset.sum_range_succ']
        simp only [dot, nth_zero, nth_succ]
        rw [ih ys m ha hb]; ring

theorem wsum_eq_sum (q : Nat → R) : ∀ (l : List R) (k : Nat),
    wsum q k l = ∑ j ∈ Finset.range l.length, nth l j * q (k + j) := by
  intro l
  induction l with
  | nil => intro k; simp [wsum]
  | cons s rest ih =>
    intro k
    rw [List.length_cons, Finset.sum_range_succ']
    simp only [wsum, nth_zero, nth_succ, Nat.add_zero]
    rw [ih (k+1)]
    have : ∀ j, k + 1 + j = k + (j + 1) := by intro j; omega
    simp only [this]; ring

theorem nth_zip_sub (a b : List R) (n i : Nat) (ha : a.length = n) (hb : b.length = n) (hi : i < n) :
    nth ((a.zip b).map fun (p : R × R) => p.1 - p.2) i = nth a i - nth b i := by
  unfold nth
  have h1 : i < a.length := by omega
  have h2 : i < b.length := by omega
  simp [List.getD_eq_getElem?_getD, List.getElem?_map, List.getElem?_zip_eq_some, h1, h2, List.getElem?_eq_getElem]

theorem nth_map_list {α : Type} (f : α → R) (l : List α) (i : Nat) (hi : i < l.length) :
    nth (l.map f) i = f (l[i]) := by
  unfold nth
  simp [List.getD_eq_getElem?_getD, List.getElem?_map, List.getElem?_eq_getElem hi]

/-- entry `k` of `normalResidual` is the `k`-th normal equation on the kept samples -/
theorem normalResidual_entry (modes : List (List R)) (data : List R) (mask : List Bool) (w : List R)
    (hshape : ∀ c ∈ modes.map (maskSel mask), c.length = (maskSel mask data).length)
    (k : Nat) (hk : k < (modes.map (maskSel mask)).length) :
    nth (normalResidual modes data mask w) k =
      ∑ i ∈ Finset.range (maskSel mask data).length,
        nth ((modes.map (maskSel mask)).getD k []) i *
          (∑ j ∈ Finset.range (modes.map (maskSel mask)).length, nth w j * nth ((modes.map (maskSel mask)).getD j []) i
            - nth (maskSel mask data) i) := by
  set cols := modes.map (maskSel mask) with hcols
  set d := maskSel mask data with hd
  set n := d.length with hn
  unfold normalResidual
  simp only [← hcols, ← hd]
  rw [nth_map_list _ cols k hk]
  have hck : (cols[k]).length = n := hshape _ (List.getElem_mem hk)
  have hgetk : cols.getD k [] = cols[k] := by simp [List.getD_eq_getElem?_getD, List.getElem?_eq_getElem hk]
  have hfitlen : ((List.range d.length).map fun i => wsum (fun k => nth w k) 0 (cols.map fun c => nth c i)).length = n := by simp [hn]
  have hreslen : ((((List.range d.length).map fun i => wsum (fun k => nth w k) 0 (cols.map fun c => nth c i)).zip d).map
      fun (p : R × R) => p.1 - p.2).length = n := by simp [hn]
  rw [dot_eq_sum _ _ n hck hreslen, hgetk]
  apply Finset.sum_congr rfl
  intro i hi
  have hi' : i < n := Finset.mem_range.mp hi
  rw [nth_zip_sub _ _ n i hfitlen rfl hi', nth_map_range, if_pos (by omega), wsum_eq_sum]
  congr 2
  rw [List.length_map]
  apply Finset.sum_congr rfl
  intro j hj
  have hj' : j < cols.length := Finset.mem_range.mp hj
  rw [nth_map_list _ cols j hj']
  have : cols.getD j [] = cols[j] := by simp [List.getD_eq_getElem?_getD, List.getElem?_eq_getElem hj']
  rw [this, Nat.zero_add]; ring
end Bridge

section BridgeField
variable {F : Type} [Field F] [LinearOrder F] [IsStrictOrderedRing F]

/-- **the run-time re-check is enough**: if the list program `normalResidual` returns zeros for a reply `w` (what the driver tests, in
exact rational arithmetic, before it attaches the flag `normal-equations-hold`), the kept data are synthesised from the kept modes
with coefficients `c`, and the kept modes are independent, then `w` IS `c`, entry by entry -/
theorem flagged_reply_is_synthesis (modes : List (List F)) (data : List F) (mask : List Bool) (w : List F) (c : Nat → F)
    (hshape : ∀ col ∈ modes.map (maskSel mask), col.length = (maskSel mask data).length)
    (hz : ∀ k, k < (modes.map (maskSel mask)).length → nth (normalResidual modes data mask w) k = 0)
    (hsyn : ∀ i, i < (maskSel mask data).length →
      nth (maskSel mask data) i = ∑ j ∈ Finset.range (modes.map (maskSel mask)).length, c j * nth ((modes.map (maskSel mask)).getD j []) i)
    (hindep : ∀ v : Nat → F, (∀ i, i < (maskSel mask data).length →
      ∑ j ∈ Finset.range (modes.map (maskSel mask)).length, v j * nth ((modes.map (maskSel mask)).getD j []) i = 0) →
      ∀ j, j < (modes.map (maskSel mask)).length → v j = 0) :
    ∀ j, j < (modes.map (maskSel mask)).length → nth w j = c j := by
  set cols := modes.map (maskSel mask) with hcols
  set d := maskSel mask data with hd
  -- abstract problem over Fin
  let V : Finset (Fin d.length) := Finset.univ
  let M : Fin cols.length → Fin d.length → F := fun k i => nth (cols.getD k []) i
  let dd : Fin d.length → F := fun i => nth d i
  let cc : Fin cols.length → F := fun k => c k
  let ww : Fin cols.length → F := fun k => nth w k
  have hsyn' : ∀ i ∈ V, dd i = ∑ k, cc k * M k i := by
    intro i _
    simp only [dd, cc, M]
    rw [hsyn i i.isLt, Finset.sum_range]
  have hindep' : ∀ v : Fin cols.length → F, (∀ i ∈ V, ∑ k, v k * M k i = 0) → v = 0 := by
    intro v hv
    let v' : Nat → F := fun j => if h : j < cols.length then v ⟨j, h⟩ else 0
    have := hindep v' (by
      intro i hi
      have h1 := hv ⟨i, hi⟩ (Finset.mem_univ _)
      rw [Finset.sum_range]
      simp only [v', M] at h1 ⊢
      rw [← h1]
      apply Finset.sum_congr rfl
      intro k _
      simp [k.isLt])
    funext k
    have h2 := this k k.isLt
    simpa [v', k.isLt] using h2
  have hN : ∀ k, ∑ i ∈ V, M k i * (∑ j, ww j * M j i - dd i) = 0 := by
    intro k
    have h1 := hz k k.isLt
    rw [normalResidual_entry modes data mask w hshape k k.isLt] at h1
    simp only [← hcols, ← hd] at h1
    rw [Finset.sum_range] at h1
    simp only [V, M, ww, dd]
    rw [← h1]
    apply Finset.sum_congr rfl
    intro i _
    rw [Finset.sum_range]
  have key := normal_eq_recovers V M dd cc hsyn' hindep' ww hN
  intro j hj
  have := congrFun key ⟨j, hj⟩
  simpa [ww, cc] using this
end BridgeField
end C10L
