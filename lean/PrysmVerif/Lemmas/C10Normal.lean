import PrysmVerif.Lemmas.C10Pack
import Mathlib.LinearAlgebra.Matrix.NonsingularInverse
/-!
# C10 — the normal equations of the masked least-squares problem
-/
set_option linter.unusedSectionVars false
namespace C10L
open Model.C10

section Normal
variable {F : Type} [Field F] [LinearOrder F] [IsStrictOrderedRing F]
variable {ι κ : Type} [Fintype κ]

/-- the Gram form: `Σ_k v_k (Σ_i M_k(i) Σ_j v_j M_j(i)) = Σ_i (Σ_k v_k M_k(i))²` -/
theorem gram_quadratic (V : Finset ι) (M : κ → ι → F) (v : κ → F) :
    ∑ k, v k * ∑ i ∈ V, M k i * ∑ j, v j * M j i = ∑ i ∈ V, (∑ k, v k * M k i) ^ 2 := by
  simp only [Finset.mul_sum]
  rw [Finset.sum_comm]
  apply Finset.sum_congr rfl
  intro i _
  rw [pow_two, Finset.sum_mul]
  apply Finset.sum_congr rfl
  intro k _
  rw [Finset.mul_sum]; apply Finset.sum_congr rfl; intro j _; ring

/-- modes independent on the valid samples ⇒ the Gram matrix `AᵀA` has a trivial kernel -/
theorem gram_kernel_trivial (V : Finset ι) (M : κ → ι → F)
    (hindep : ∀ v : κ → F, (∀ i ∈ V, ∑ k, v k * M k i = 0) → v = 0) (v : κ → F)
    (hG : ∀ k, ∑ i ∈ V, M k i * ∑ j, v j * M j i = 0) : v = 0 := by
  apply hindep
  have hq := gram_quadratic V M v
  have hz : ∑ i ∈ V, (∑ k, v k * M k i) ^ 2 = 0 := by
    rw [← hq]; apply Finset.sum_eq_zero; intro k _; rw [hG k, mul_zero]
  have hall := (Finset.sum_eq_zero_iff_of_nonneg (fun i _ => sq_nonneg _)).mp hz
  intro i hi
  exact pow_eq_zero_iff (two_ne_zero) |>.mp (hall i hi)

/-- **the normal equations have at most one solution** when the modes are independent on the valid samples — for ANY data -/
theorem normal_eq_unique (V : Finset ι) (M : κ → ι → F) (d : ι → F)
    (hindep : ∀ v : κ → F, (∀ i ∈ V, ∑ k, v k * M k i = 0) → v = 0) (w w' : κ → F)
    (hN : ∀ k, ∑ i ∈ V, M k i * (∑ j, w j * M j i - d i) = 0)
    (hN' : ∀ k, ∑ i ∈ V, M k i * (∑ j, w' j * M j i - d i) = 0) : w = w' := by
  have hv : (fun k => w k - w' k) = 0 := by
    apply gram_kernel_trivial V M hindep
    intro k
    have e : ∑ i ∈ V, M k i * ∑ j, (w j - w' j) * M j i
        = ∑ i ∈ V, M k i * (∑ j, w j * M j i - d i) - ∑ i ∈ V, M k i * (∑ j, w' j * M j i - d i) := by
      rw [← Finset.sum_sub_distrib]
      apply Finset.sum_congr rfl
      intro i _
      have : ∑ j, (w j - w' j) * M j i = ∑ j, w j * M j i - ∑ j, w' j * M j i := by
        rw [← Finset.sum_sub_distrib]; apply Finset.sum_congr rfl; intro j _; ring
      rw [this]; ring
    rw [e, hN k, hN' k, sub_zero]
  funext k
  have := congrFun hv k
  simpa [sub_eq_zero] using this

/-- **solving the normal equations inverts synthesis**: data synthesised from the modes on the valid samples, modes independent
there ⇒ every solution of `Aᵀ(A w - d) = 0` IS the synthesising coefficient vector -/
theorem normal_eq_recovers (V : Finset ι) (M : κ → ι → F) (d : ι → F) (c : κ → F)
    (hsyn : ∀ i ∈ V, d i = ∑ k, c k * M k i)
    (hindep : ∀ v : κ → F, (∀ i ∈ V, ∑ k, v k * M k i = 0) → v = 0) (w : κ → F)
    (hN : ∀ k, ∑ i ∈ V, M k i * (∑ j, w j * M j i - d i) = 0) : w = c :=
  (lstsq_recovers V M d c hsyn hindep).2 w (normal_eq_minimises V M d w hN c)

/-- the cost along a line: `cost (w + t e) = cost w + t² Σ (e·M)² + 2 t Σ (e·M)(w·M - d)` -/
theorem cost_along_line (V : Finset ι) (M : κ → ι → F) (d : ι → F) (w e : κ → F) (t : F) :
    lsqCost V M d (fun k => w k + t * e k) =
      lsqCost V M d w + t ^ 2 * ∑ i ∈ V, (∑ k, e k * M k i) ^ 2
        + 2 * t * ∑ i ∈ V, (∑ k, e k * M k i) * (∑ k, w k * M k i - d i) := by
  unfold lsqCost
  rw [Finset.mul_sum, Finset.mul_sum, ← Finset.sum_add_distrib, ← Finset.sum_add_distrib]
  apply Finset.sum_congr rfl
  intro i _
  have : ∑ k, (w k + t * e k) * M k i = ∑ k, w k * M k i + t * ∑ k, e k * M k i := by
    rw [Finset.mul_sum, ← Finset.sum_add_distrib]; apply Finset.sum_congr rfl; intro k _; ring
  rw [this]; ring

/-- **least squares ⇒ normal equations**: a minimiser of the masked cost satisfies `Aᵀ(A w - d) = 0` (the converse of
`normal_eq_minimises`; no independence needed) -/
theorem minimiser_normal_eq [DecidableEq κ] (V : Finset ι) (M : κ → ι → F) (d : ι → F) (w : κ → F)
    (hmin : ∀ v, lsqCost V M d w ≤ lsqCost V M d v) (k : κ) :
    ∑ i ∈ V, M k i * (∑ j, w j * M j i - d i) = 0 := by
  set e : κ → F := fun j => if j = k then 1 else 0 with he
  have hek : ∀ i, ∑ j, e j * M j i = M k i := by
    intro i; simp [he, Finset.sum_ite_eq']
  set a : F := ∑ i ∈ V, (M k i) ^ 2 with ha
  set b : F := ∑ i ∈ V, M k i * (∑ j, w j * M j i - d i) with hb
  have ha0 : 0 ≤ a := Finset.sum_nonneg (fun i _ => sq_nonneg _)
  have line : ∀ t : F, 0 ≤ t ^ 2 * a + 2 * t * b := by
    intro t
    have h1 := hmin (fun j => w j + t * e j)
    rw [cost_along_line] at h1
    simp only [hek] at h1
    linarith
  have hpos : 0 < a + 1 := by linarith
  have h := line (-b / (a + 1))
  have e2 : (-b / (a + 1)) ^ 2 * a + 2 * (-b / (a + 1)) * b = -(b ^ 2 * (a + 2)) / (a + 1) ^ 2 := by
    field_simp; ring
  rw [e2] at h
  have hden : 0 < (a + 1) ^ 2 := by positivity
  have hnum : 0 ≤ -(b ^ 2 * (a + 2)) := by
    have := (div_nonneg_iff).mp h
    rcases this with ⟨h1, _⟩ | ⟨_, h2⟩
    · exact h1
    · exact absurd h2 (not_le.mpr hden)
  have hb2 : b ^ 2 * (a + 2) ≤ 0 := by linarith
  have h2 : 0 < a + 2 := by linarith
  have : b ^ 2 ≤ 0 := by
    by_contra hc
    have hc := not_le.mp hc
    have := mul_pos hc h2
    linarith
  have : b ^ 2 = 0 := le_antisymm this (sq_nonneg b)
  exact pow_eq_zero_iff (two_ne_zero) |>.mp this

/-- **minimiser ⇔ normal equations** -/
theorem minimiser_iff_normal_eq [DecidableEq κ] (V : Finset ι) (M : κ → ι → F) (d : ι → F) (w : κ → F) :
    (∀ v, lsqCost V M d w ≤ lsqCost V M d v) ↔ ∀ k, ∑ i ∈ V, M k i * (∑ j, w j * M j i - d i) = 0 :=
  ⟨fun h k => minimiser_normal_eq V M d w h k, fun h v => normal_eq_minimises V M d w h v⟩

/-- **the fit is well defined for any data**: modes independent on the valid samples ⇒ the normal equations have exactly one
solution (the Gram matrix is invertible), and it is the unique minimiser of the masked cost -/
theorem lstsq_exists_unique [DecidableEq κ] (V : Finset ι) (M : κ → ι → F) (d : ι → F)
    (hindep : ∀ v : κ → F, (∀ i ∈ V, ∑ k, v k * M k i = 0) → v = 0) :
    ∃! w : κ → F, ∀ v, lsqCost V M d w ≤ lsqCost V M d v := by
  -- Gram matrix and right-hand side
  let G : Matrix κ κ F := fun k j => ∑ i ∈ V, M k i * M j i
  let rhs : κ → F := fun k => ∑ i ∈ V, M k i * d i
  have hGv : ∀ (v : κ → F) k, G.mulVec v k = ∑ i ∈ V, M k i * ∑ j, v j * M j i := by
    intro v k
    simp only [Matrix.mulVec, dotProduct, G]
    simp only [Finset.sum_mul, Finset.mul_sum]
    rw [Finset.sum_comm]
    apply Finset.sum_congr rfl; intro i _
    apply Finset.sum_congr rfl; intro j _
    ring
  have hinj : Function.Injective G.mulVec := by
    intro v v' hvv
    have : (fun k => v k - v' k) = 0 := by
      apply gram_kernel_trivial V M hindep
      intro k
      have h1 := congrFun hvv k
      rw [hGv, hGv] at h1
      have : ∑ i ∈ V, M k i * ∑ j, (v j - v' j) * M j i
          = ∑ i ∈ V, M k i * ∑ j, v j * M j i - ∑ i ∈ V, M k i * ∑ j, v' j * M j i := by
        rw [← Finset.sum_sub_distrib]; apply Finset.sum_congr rfl; intro i _
        have : ∑ j, (v j - v' j) * M j i = ∑ j, v j * M j i - ∑ j, v' j * M j i := by
          rw [← Finset.sum_sub_distrib]; apply Finset.sum_congr rfl; intro j _; ring
        rw [this]; ring
      rw [this, h1, sub_self]
    funext k
    have := congrFun this k
    simpa [sub_eq_zero] using this
  have hunit : IsUnit G := Matrix.mulVec_injective_iff_isUnit.mp hinj
  have hdet : IsUnit G.det := (Matrix.isUnit_iff_isUnit_det G).mp hunit
  let w : κ → F := G⁻¹.mulVec rhs
  have hw : G.mulVec w = rhs := by
    simp only [w, Matrix.mulVec_mulVec, Matrix.mul_nonsing_inv G hdet, Matrix.one_mulVec]
  have hN : ∀ k, ∑ i ∈ V, M k i * (∑ j, w j * M j i - d i) = 0 := by
    intro k
    have h1 := congrFun hw k
    rw [hGv] at h1
    simp only [mul_sub, Finset.sum_sub_distrib]
    rw [h1]; simp [rhs]
  refine ⟨w, fun v => normal_eq_minimises V M d w hN v, ?_⟩
  intro w' hw'
  exact normal_eq_unique V M d hindep w' w (fun k => minimiser_normal_eq V M d w' hw' k) hN
end Normal
end C10L
