import PrysmVerif.Model.C08
import Mathlib.Data.List.Basic
/-! # C08 — the sweep invariant and `sweep_eq_map` (all recurrence families, all strictly ascending order lists) -/
namespace C08L
open Model.C08
set_option linter.unusedSimpArgs false

variable {S K : Type}

theorem emit_of_ge (ns : List Nat) (i : Nat) (v : K) (st : List K × Nat) (h : ns.length ≤ st.2) :
    emit ns i v st = st := by
  unfold emit
  rw [List.getElem?_eq_none h]; simp

/-- invariant of the sweep loop: with `ns = pre ++ rest`, `rest` strictly ascending and `≥ i`, the loop
    appends exactly the `eval`s of the members of `rest` below `i + fuel`, in order -/
theorem sweepLoop_spec (r : Rec S K) (fuel : Nat) :
    ∀ (i : Nat) (pre rest : List Nat) (out : List K),
      rest.Pairwise (· < ·) → (∀ a ∈ rest, i ≤ a) →
      sweepLoop r (pre ++ rest) fuel i (r.stateAt i) (out, pre.length)
        = (out ++ (rest.filter (· < i + fuel)).map r.eval, pre.length + (rest.filter (· < i + fuel)).length) := by
  induction fuel with
  | zero =>
    intro i pre rest out _ hge
    have : rest.filter (· < i + 0) = [] := by
      rw [List.filter_eq_nil_iff]; intro a ha; have := hge a ha; simp; omega
    simp only [sweepLoop, this]; simp
  | succ fuel ih =>
    intro i pre rest out hpw hge
    rw [sweepLoop]
    cases rest with
    | nil =>
      have e : emit (pre ++ []) i (r.read i (r.stateAt i)) (out, pre.length) = (out, pre.length) :=
        emit_of_ge _ _ _ _ (by simp)
      rw [e]
      have := ih (i+1) pre [] out List.Pairwise.nil (by simp)
      simpa [Rec.stateAt] using this
    | cons a rest' =>
      have ha : i ≤ a := hge a (by simp)
      have hget : (pre ++ a :: rest')[pre.length]? = some a := by simp
      by_cases hai : a = i
      · subst hai
        have e : emit (pre ++ a :: rest') a (r.read a (r.stateAt a)) (out, pre.length)
            = (out ++ [r.eval a], pre.length + 1) := by
          simp [emit, hget, Rec.eval]
        rw [e]
        have hpw' : rest'.Pairwise (· < ·) := (List.pairwise_cons.mp hpw).2
        have hlt : ∀ b ∈ rest', a + 1 ≤ b := fun b hb => (List.pairwise_cons.mp hpw).1 b hb
        have := ih (a+1) (pre ++ [a]) rest' (out ++ [r.eval a]) hpw' hlt
        simp only [List.append_assoc, List.singleton_append, List.length_append, List.length_singleton] at this
        rw [show r.next a (r.stateAt a) = r.stateAt (a+1) from rfl, this]
        have hf : (a :: rest').filter (· < a + (fuel + 1)) = a :: rest'.filter (· < a + 1 + fuel) := by
          rw [List.filter_cons_of_pos (by simp)]
          congr 1; apply List.filter_congr; intro b _; simp; omega
        rw [hf]; simp; omega
      · have hlt : i + 1 ≤ a := by omega
        have e : emit (pre ++ a :: rest') i (r.read i (r.stateAt i)) (out, pre.length) = (out, pre.length) := by
          simp [emit, hget, hai]
        rw [e]
        have hge' : ∀ b ∈ a :: rest', i + 1 ≤ b := by
          intro b hb
          rcases List.mem_cons.mp hb with rfl | hb
          · exact hlt
          · have := (List.pairwise_cons.mp hpw).1 b hb; omega
        have := ih (i+1) pre (a :: rest') out hpw hge'
        rw [show r.next i (r.stateAt i) = r.stateAt (i+1) from rfl, this]
        have hf : (a :: rest').filter (· < i + 1 + fuel) = (a :: rest').filter (· < i + (fuel + 1)) := by
          apply List.filter_congr; intro b _; simp; omega
        rw [hf]

/-- **sequence evaluation equals one-at-a-time evaluation**: for every recurrence family and every non-empty
    strictly ascending order list (gapped or not, starting anywhere, any length) the sweep returns exactly
    `ns.map eval`, in the order requested -/
theorem sweep_eq_map (r : Rec S K) (ns : List Nat) (hne : ns ≠ []) (hpw : ns.Pairwise (· < ·)) :
    sweep r ns = some (ns.map r.eval) := by
  unfold sweep
  obtain ⟨mx, hmx⟩ : ∃ mx, ns.getLast? = some mx := by
    cases h : ns.getLast? with
    | none => exact absurd (List.getLast?_eq_none_iff.mp h) hne
    | some mx => exact ⟨mx, rfl⟩
  simp only [hmx]
  have hle : ∀ a ∈ ns, a < 0 + (mx + 1) := by
    intro a ha
    have hlast : mx ∈ ns := List.mem_of_getLast? hmx
    -- every element is ≤ the last one in a strictly ascending list
    have : a ≤ mx := by
      obtain ⟨l, rfl⟩ : ∃ l, ns = l ++ [mx] := by
        refine ⟨ns.dropLast, ?_⟩
        have := List.dropLast_append_getLast? mx (by simpa using hmx)
        exact this.symm
      rcases List.mem_append.mp ha with h | h
      · have := (List.pairwise_append.mp hpw).2.2 a h mx (by simp); omega
      · simp at h; omega
    omega
  have := sweepLoop_spec r (mx+1) 0 [] ns [] hpw (by simp)
  simp only [List.nil_append, List.length_nil, Rec.stateAt, Nat.zero_add] at this
  rw [this]
  have hf : ns.filter (· < 0 + (mx + 1)) = ns := by
    rw [List.filter_eq_self]; intro a ha; simpa using hle a ha
  simp only [Nat.zero_add] at hf
  rw [hf]; simp [finish]

end C08L
