import PrysmVerif.Lemmas.C13Num
import PrysmVerif.Lemmas.C13Fourier
import PrysmVerif.Lemmas.C13Rot
import Mathlib.Analysis.SpecialFunctions.Trigonometric.Basic
/-!
# C13 — the model's DFT / PSD over `ℝ` (with `Real.cos`, `Real.sin`, `2π`) is the complex DFT sum;
Parseval for the model
-/
namespace C13L
open scoped C13L
open Model.C13 Finset Complex

theorem dftAngle_eq (m n k l i j : ℕ) : dftAngle (2 * Real.pi) m n k l i j = ang m n k l i j := by
  simp only [dftAngle, ang, ofInt_eq, Int.cast_natCast]

/-- the complex DFT sum whose real and imaginary parts the model computes -/
noncomputable def cdft (m n : ℕ) (x : ℕ → ℕ → ℝ) (k l : ℕ) : ℂ :=
  ∑ i ∈ range m, ∑ j ∈ range n, (x i j : ℂ) * exp (-((ang m n k l i j : ℝ) : ℂ) * I)

theorem exp_neg_ang_re (t : ℝ) : (exp (-(t : ℂ) * I)).re = Real.cos t := by
  have : -(t : ℂ) * I = ((-t : ℝ) : ℂ) * I := by push_cast; ring
  rw [this, exp_ofReal_mul_I_re, Real.cos_neg]

theorem exp_neg_ang_im (t : ℝ) : (exp (-(t : ℂ) * I)).im = -Real.sin t := by
  have : -(t : ℂ) * I = ((-t : ℝ) : ℂ) * I := by push_cast; ring
  rw [this, exp_ofReal_mul_I_im, Real.sin_neg]

theorem dftRe_eq (m n : ℕ) (x : ℕ → ℕ → ℝ) (k l : ℕ) :
    dftRe Real.cos (2 * Real.pi) m n x k l = (cdft m n x k l).re := by
  simp only [dftRe, cdft, sumTo_eq, dftAngle_eq, re_sum, re_ofReal_mul, exp_neg_ang_re]

theorem dftIm_eq (m n : ℕ) (x : ℕ → ℕ → ℝ) (k l : ℕ) :
    dftIm Real.sin (2 * Real.pi) m n x k l = (cdft m n x k l).im := by
  simp only [dftIm, cdft, sumTo_eq, dftAngle_eq, im_sum, im_ofReal_mul, exp_neg_ang_im, mul_neg]

theorem dftPow_eq (m n : ℕ) (x : ℕ → ℕ → ℝ) (k l : ℕ) :
    dftPow Real.cos Real.sin (2 * Real.pi) m n x k l = ‖cdft m n x k l‖ ^ 2 := by
  simp only [dftPow, dftRe_eq, dftIm_eq]
  rw [Complex.sq_norm, normSq_apply]


theorem sum_fin_prod {M : Type*} [AddCommMonoid M] (m n : ℕ) (g : ℕ → ℕ → M) :
    ∑ p : Fin m × Fin n, g p.1.val p.2.val = ∑ i ∈ range m, ∑ j ∈ range n, g i j := by
  rw [Fintype.sum_prod_type, ← Fin.sum_univ_eq_sum_range (fun i => ∑ j ∈ range n, g i j) m]
  refine Fintype.sum_congr _ _ fun a => ?_
  exact Fin.sum_univ_eq_sum_range (fun j => g a.val j) n

theorem cdft_eq_kern (m n : ℕ) (x : ℕ → ℕ → ℝ) (q : Fin m × Fin n) :
    cdft m n x q.1.val q.2.val = ∑ p : Fin m × Fin n, kern2 m n (zeta m) (zeta n) q p * (x p.1.val p.2.val : ℂ) := by
  have := sum_fin_prod m n (fun i j => (x i j : ℂ) * exp (-((ang m n q.1.val q.2.val i j : ℝ) : ℂ) * I))
  unfold cdft
  rw [← this]
  refine Fintype.sum_congr _ _ fun p => ?_
  rw [kern2, kern_exp, mul_comm]

/-- Parseval for the complex DFT sum the model computes -/
theorem cdft_parseval (m n : ℕ) (hm : m ≠ 0) (hn : n ≠ 0) (x : ℕ → ℕ → ℝ) :
    ∑ k ∈ range m, ∑ l ∈ range n, ‖cdft m n x k l‖ ^ 2
      = ((m * n : ℕ) : ℝ) * ∑ i ∈ range m, ∑ j ∈ range n, x i j ^ 2 := by
  rw [← sum_fin_prod m n (fun k l => ‖cdft m n x k l‖ ^ 2), ← sum_fin_prod m n (fun i j => x i j ^ 2)]
  have h := parseval_of_col_orthogonal (kern2 m n (zeta m) (zeta n)) ((m * n : ℕ) : ℝ)
    (fun p p' => kern2_col_orthogonal m n (zeta m) (zeta n) (zeta_primitive m hm) (zeta_primitive n hn) p p')
    (fun p => (x p.1.val p.2.val : ℂ))
  simp only [← cdft_eq_kern, norm_real, Real.norm_eq_abs, sq_abs] at h
  exact h

theorem sum_rot2 (R : Rot) (m n : ℕ) (φ : ℕ → ℕ → ℝ) :
    ∑ i ∈ range m, ∑ j ∈ range n, φ (rotIdx R m i) (rotIdx R n j) = ∑ i ∈ range m, ∑ j ∈ range n, φ i j := by
  rw [sum_rot R m (fun k => ∑ j ∈ range n, φ k (rotIdx R n j))]
  refine sum_congr rfl fun i _ => ?_
  exact sum_rot R n (fun l => φ i l)

/-- Parseval for the model's PSD, whatever the two rotations are -/
theorem model_psd_parseval (pre post : Rot) (m n : ℕ) (hm : m ≠ 0) (hn : n ≠ 0) (dx : ℝ) (hdx : dx ≠ 0)
    (h w : ℕ → ℕ → ℝ) (hS : winS2 m n w ≠ 0) :
    ∑ i ∈ range m, ∑ j ∈ range n,
        psdRot pre post Real.cos Real.sin (2 * Real.pi) m n dx h w i j * (1 / (n * dx)) * (1 / (m * dx))
      = (∑ i ∈ range m, ∑ j ∈ range n, (h i j * w i j) ^ 2) / winS2 m n w := by
  simp only [psdRot, dftPow_eq, psdCoef_eq _ _ hdx]
  rw [sum_rot2 post m n (fun k l =>
    ‖cdft m n (fun a b => h (rotIdx pre m a) (rotIdx pre n b) * w (rotIdx pre m a) (rotIdx pre n b)) k l‖ ^ 2
      / (winS2 m n w / dx ^ 2) * (1 / (n * dx)) * (1 / (m * dx)))]
  simp only [div_eq_mul_inv, ← sum_mul]
  rw [cdft_parseval m n hm hn]
  rw [sum_rot2 pre m n (fun a b => (h a b * w a b) ^ 2)]
  have hm' : (m : ℝ) ≠ 0 := Nat.cast_ne_zero.mpr hm
  have hn' : (n : ℝ) ≠ 0 := Nat.cast_ne_zero.mpr hn
  push_cast
  field_simp

end C13L
