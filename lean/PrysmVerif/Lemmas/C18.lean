import PrysmVerif.Model.C18
import Mathlib.Data.List.Nodup
import Mathlib.Data.List.Perm.Basic
import Mathlib.Data.List.Range
import Mathlib.Tactic.Ring
import Mathlib.Tactic.Linarith
import Mathlib.Tactic.IntervalCases
/-! # helper lemmas for C18: the ring walk in closed form, permutation by `roll` -/
namespace Lemmas.C18
open Model.C18

theorem Hex.ext' {a b : Hex} (hq : a.q = b.q) (hr : a.r = b.r) (hs : a.s = b.s) : a = b := by
  cases a; cases b; simp_all

/-- `t + j·d` -/
def step (t d : Hex) (j : Nat) : Hex := ⟨t.q + j * d.q, t.r + j * d.r, t.s + j * d.s⟩

theorem walkSide_eq (d : Hex) (n : Nat) (t : Hex) :
    walkSide Hex.add d n t = ((List.range n).map (step t d), step t d n) := by
  induction n generalizing t with
  | zero => simp [walkSide, step]
  | succ n ih =>
    simp only [walkSide, ih, List.range_succ_eq_map, List.map_cons, List.map_map]
    refine Prod.ext ?_ ?_
    · simp only [List.cons.injEq]
      refine ⟨by simp [step], ?_⟩
      apply List.map_congr_left
      intro j _
      simp only [Function.comp, step, Hex.add, Hex.mk.injEq]
      refine ⟨?_, ?_, ?_⟩ <;> push_cast <;> ring
    · simp only [step, Hex.add, Hex.mk.injEq]
      refine ⟨?_, ?_, ?_⟩ <;> push_cast <;> ring

/-- the six sides of ring `k` in closed form -/
def side (k : Int) : Nat → Nat → Hex
  | 0, j => ⟨-k + j, k, -j⟩
  | 1, j => ⟨j, k - j, -k⟩
  | 2, j => ⟨k, -j, -k + j⟩
  | 3, j => ⟨k - j, -k, j⟩
  | 4, j => ⟨-j, -k + j, k⟩
  | _, j => ⟨-k, j, k - j⟩

theorem walkRing_eq (k : Nat) :
    walkRing Hex.add hexDirs k ⟨-(k : Int), (k : Int), 0⟩ =
      (List.range k).map (side k 0) ++ ((List.range k).map (side k 1) ++ ((List.range k).map (side k 2) ++
      ((List.range k).map (side k 3) ++ ((List.range k).map (side k 4) ++ ((List.range k).map (side k 5) ++ []))))) := by
  simp only [hexDirs, walkRing, walkSide_eq]
  congr 1
  · apply List.map_congr_left; intro j _; simp [step, side]
  congr 1
  · apply List.map_congr_left; intro j _; simp only [step, side, Hex.mk.injEq]; refine ⟨?_, ?_, ?_⟩ <;> ring
  congr 1
  · apply List.map_congr_left; intro j _; simp only [step, side, Hex.mk.injEq]; refine ⟨?_, ?_, ?_⟩ <;> ring
  congr 1
  · apply List.map_congr_left; intro j _; simp only [step, side, Hex.mk.injEq]; refine ⟨?_, ?_, ?_⟩ <;> ring
  congr 1
  · apply List.map_congr_left; intro j _; simp only [step, side, Hex.mk.injEq]; refine ⟨?_, ?_, ?_⟩ <;> ring
  congr 1
  · apply List.map_congr_left; intro j _; simp only [step, side, Hex.mk.injEq]; refine ⟨?_, ?_, ?_⟩ <;> ring

theorem roll_perm {α : Type} (n : Nat) (l : List α) : (roll n l).Perm l := by
  induction n generalizing l with
  | zero => exact List.Perm.refl _
  | succ n ih =>
    cases l with
    | nil => exact List.Perm.refl _
    | cons a l =>
      simp only [roll]
      exact (ih _).trans (List.perm_append_singleton a l)

theorem mem_hexRing (k : Nat) (h : Hex) :
    h ∈ hexRing k ↔ ∃ i < 6, ∃ j < k, h = side k i j := by
  unfold hexRing
  rw [(roll_perm k _).mem_iff, walkRing_eq]
  simp only [List.mem_append, List.mem_map, List.mem_range, List.not_mem_nil, or_false]
  constructor
  · rintro (⟨j, hj, rfl⟩ | ⟨j, hj, rfl⟩ | ⟨j, hj, rfl⟩ | ⟨j, hj, rfl⟩ | ⟨j, hj, rfl⟩ | ⟨j, hj, rfl⟩)
    exacts [⟨0, by omega, j, hj, rfl⟩, ⟨1, by omega, j, hj, rfl⟩, ⟨2, by omega, j, hj, rfl⟩,
      ⟨3, by omega, j, hj, rfl⟩, ⟨4, by omega, j, hj, rfl⟩, ⟨5, by omega, j, hj, rfl⟩]
  · rintro ⟨i, hi, j, hj, rfl⟩
    interval_cases i
    · exact Or.inl ⟨j, hj, rfl⟩
    · exact Or.inr (Or.inl ⟨j, hj, rfl⟩)
    · exact Or.inr (Or.inr (Or.inl ⟨j, hj, rfl⟩))
    · exact Or.inr (Or.inr (Or.inr (Or.inl ⟨j, hj, rfl⟩)))
    · exact Or.inr (Or.inr (Or.inr (Or.inr (Or.inl ⟨j, hj, rfl⟩))))
    · exact Or.inr (Or.inr (Or.inr (Or.inr (Or.inr ⟨j, hj, rfl⟩))))

theorem length_hexRing (k : Nat) : (hexRing k).length = 6 * k := by
  unfold hexRing
  rw [(roll_perm k _).length_eq, walkRing_eq]
  simp only [List.length_append, List.length_map, List.length_range, List.length_nil]
  omega

theorem side_inj (k : Nat) (i : Nat) (j j' : Nat) (hi : i < 6) (h : side k i j = side k i j') : j = j' := by
  interval_cases i <;> simp only [side, Hex.mk.injEq] at h <;> omega

theorem side_disj (k : Nat) (i i' : Nat) (j j' : Nat) (hi : i < 6) (hi' : i' < 6) (hj : j < k) (hj' : j' < k)
    (h : side k i j = side k i' j') : i = i' := by
  interval_cases i <;> interval_cases i' <;> simp only [side, Hex.mk.injEq] at h <;> omega

theorem nodup_hexRing (k : Nat) : (hexRing k).Nodup := by
  unfold hexRing
  rw [(roll_perm k _).nodup_iff, walkRing_eq]
  have hn : ∀ i < 6, ((List.range k).map (side k i)).Nodup := fun i hi =>
    (List.nodup_range (n := k)).map_on (fun a _ b _ hab => side_inj k i a b hi hab)
  have hd : ∀ i < 6, ∀ i' < 6, i ≠ i' → ∀ x ∈ (List.range k).map (side k i), x ∉ (List.range k).map (side k i') := by
    intro i hi i' hi' hne x hx hx'
    simp only [List.mem_map, List.mem_range] at hx hx'
    obtain ⟨j, hj, rfl⟩ := hx
    obtain ⟨j', hj', e⟩ := hx'
    exact hne (side_disj k i i' j j' hi hi' hj hj' e.symm)
  simp only [List.nodup_append, List.mem_append, List.append_nil]
  refine ⟨hn 0 (by omega), ⟨hn 1 (by omega), ⟨hn 2 (by omega), ⟨hn 3 (by omega), ⟨hn 4 (by omega), hn 5 (by omega), ?_⟩, ?_⟩, ?_⟩, ?_⟩, ?_⟩
  all_goals
    intro a ha b hb hab
    subst hab
    repeat' rcases hb with hb | hb
    all_goals exact hd _ (by omega) _ (by omega) (by omega) _ ha hb

/-- every cell of ring `k` lies on the plane `q + r + s = 0` at cube distance exactly `k` -/
theorem side_props (k i j : Nat) (hi : i < 6) (hj : j < k) :
    (side k i j).q + (side k i j).r + (side k i j).s = 0 ∧ (side k i j).norm = k := by
  interval_cases i <;> simp only [side, Hex.norm] <;> omega

end Lemmas.C18
