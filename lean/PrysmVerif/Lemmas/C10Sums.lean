import PrysmVerif.Lemmas.C10Base
import Mathlib.Algebra.CharZero.Defs
import Mathlib.Tactic.NormNum
/-!
# C10 — the three Clenshaw evaluators equal the explicit sums over the value routines' polynomials
-/
set_option linter.unusedSectionVars false
set_option linter.unusedSimpArgs false

namespace C10L
open Model.C10 Model.C09

variable {F : Type} [Field F] [DecidableEq F]

/-! ## Jacobi -/

theorem jac_p1 (al be x : F) (h2 : (2 : F) ≠ 0) :
    (jacABC 0 al be).1 * x + (jacABC 0 al be).2.1 = al + 1 + (al + be + 2) * ((x - 1) / 2) := by
  by_cases hs : al + be = 0 ∨ al + be = -1
  · have : (0 == 0 && (al + be == (Num.ofInt 0 : F) || al + be == (Num.ofInt (-1) : F))) = true := by
      simpa using hs
    simp only [jacABC, this, if_true]
    simp
    field_simp
    ring
  · have hc : (0 == 0 && (al + be == (Num.ofInt 0 : F) || al + be == (Num.ofInt (-1) : F))) = false := by
      simpa using hs
    simp only [jacABC, hc]
    rw [not_or] at hs
    obtain ⟨h0, h1⟩ := hs
    have h1' : al + be + 1 ≠ 0 := fun h => h1 (by linear_combination h)
    simp
    field_simp
    ring

/-- the three-term family with `recurrence_abc` coefficients generates exactly the polynomials the value
routine `jacobi` returns (its explicit `P_1` included) -/
theorem jacFam_pair (al be x : F) (h2 : (2 : F) ≠ 0) : ∀ n, (jacFam al be).pair x n = jacobiPair al be x n := by
  intro n
  induction n with
  | zero =>
    simp only [Fam.pair, jacobiPair]
    have := jac_p1 al be x h2
    simp only [jacFam] at *
    simp at *
    linear_combination this
  | succ k ih =>
    simp only [Fam.pair, jacobiPair, ih]
    simp [jacFam]

theorem jacFam_p (al be x : F) (h2 : (2 : F) ≠ 0) (n : Nat) : (jacFam al be).p x n = jacobi n al be x := by
  simp [Fam.p, jacobi, jacFam_pair al be x h2]

theorem jacobi_clenshaw (s : List F) (al be x : F) (h2 : (2 : F) ≠ 0) :
    jacobiSumClenshaw s al be x = jacobiSumExplicit s al be x := by
  unfold jacobiSumClenshaw jacobiSumExplicit
  have h := clenshaw_general (jacFam al be) x s
  rw [wsum_congr _ _ (jacFam_p al be x h2)] at h
  rw [← h]
  cases hal : alphas (jacFam al be) x 0 s with
  | nil => simp [clenshawVal]
  | cons a t =>
    simp only [clenshawVal, hd_cons]
    rw [esum_zero _ (by intro n; simp [jacFam])]
    simp [jacFam]

/-! ## Qbfs -/

theorem qbfs_e (n : Nat) : (qbfsFam (K := F)).e n = if n = 0 then 2 else 0 := by
  simp [qbfsFam]

theorem esum_qbfs_succ (l : List F) : ∀ k, esum (qbfsFam (K := F)) (k+1) l = 0 := by
  induction l with
  | nil => intro k; simp [esum]
  | cons t rest ih => intro k; simp only [esum, ih, qbfs_e]; simp

/-- reading `2 (α_0 + α_1)` is reading the general Clenshaw value of the Qbfs auxiliary family -/
theorem clenshawVal_qbfs (al : List F) : clenshawVal qbfsFam al = 2 * (nth al 0 + nth al 1) := by
  match al with
  | [] => simp [clenshawVal]
  | [a0] => simp [clenshawVal, esum, qbfsFam]; ring
  | a0 :: a1 :: rest =>
    simp only [clenshawVal, esum, esum_qbfs_succ, nth_zero, nth_succ]
    simp [qbfsFam]; ring

/-- `clenshaw_qbfs = u²(1-u²) Σ c_n Q_n(u²)` for every coefficient list and every non-vanishing `f` -/
theorem qbfs_clenshaw (f g h : Nat → F) (hf : ∀ n, f n ≠ 0) (cs : List F) (x : F) :
    clenshawQbfs f g h cs x = qbfsSumExplicit f g h cs x := by
  unfold clenshawQbfs qbfsSumExplicit
  have e := clenshawVal_qbfs (alphas qbfsFam x 0 (cobQbfs f g h 0 cs))
  rw [clenshaw_general] at e
  obtain ⟨r0, r1, r2⟩ := qbfsQ_rel f g h (qbfsFam.p x) hf
  rw [cob3 f g h _ _ hf r0 r1 r2] at e
  simp only [ofInt_eq]
  push_cast
  rw [e]

/-! ## 2D-Q -/
section Q2d
variable [CharZero F]

omit [DecidableEq F] [CharZero F] in
theorem clen_gen (n m : Int) (h1 : m ≠ 1 ∨ 3 ≤ n ∨ n < 0) (h2 : m ≠ 2 ∨ n ≠ 0) (h3 : m ≠ 3 ∨ n ≠ 0) :
    abcQ2dClenshaw (K := F) n m = abcQ2d n m := by
  unfold abcQ2dClenshaw
  simp only [Bool.and_eq_true, beq_iff_eq]
  split_ifs <;> first | rfl | (exfalso; omega)

omit [DecidableEq F] [CharZero F] in
theorem q2dFam_e (m n : Nat) : (q2dFam (K := F) m).e n = if m = 1 ∧ n = 2 then -2 / 5 else 0 := by
  simp [q2dFam]

omit [DecidableEq F] in
theorem abcQ2d_zero (k : ℕ) :
    abcQ2d (K := F) ((0 : ℕ) : Int) ((k + 4 : ℕ) : Int) = (2 * ((k : F) + 4) - 1, -2 * ((k : F) + 3), 0) := by
  have e1 : ((k : F) + 2) ≠ 0 := by
    have : ((k : F) + 2) = ((k + 2 : ℕ) : F) := by push_cast; ring
    rw [this]; exact Nat.cast_ne_zero.mpr (by omega)
  have e2 : ((k : F) + 1) ≠ 0 := by
    have : ((k : F) + 1) = ((k + 1 : ℕ) : F) := by push_cast; ring
    rw [this]; exact Nat.cast_ne_zero.mpr (by omega)
  have hD : (((4 * ((0:ℕ):Int) ^ 2 - 1) * (((k + 4 : ℕ) : Int) + ((0:ℕ):Int) - 2) * (((k + 4 : ℕ) : Int) + 2 * ((0:ℕ):Int) - 3) : Int) : F)
      = -(((k : F) + 2) * ((k : F) + 1)) := by push_cast; ring
  have hD0 : -(((k : F) + 2) * ((k : F) + 1)) ≠ 0 := neg_ne_zero.mpr (mul_ne_zero e1 e2)
  unfold abcQ2d
  simp only [ofInt_eq]
  rw [hD]
  refine Prod.ext ?_ (Prod.ext ?_ ?_)
  · simp only []; rw [div_eq_iff hD0]; push_cast; ring
  · simp only []; rw [div_eq_iff hD0]; push_cast; ring
  · simp only []; rw [div_eq_iff hD0]; push_cast; ring

theorem q2dFam_pair (m : Nat) (hm : 1 ≤ m) (x : F) : ∀ n, (q2dFam m).pair x n = q2dPPair m x n := by
  intro n
  induction n with
  | zero =>
    match m, hm with
    | 1, _ => simp [Fam.pair, q2dPPair, q2dFam, abcQ2dClenshaw]; ring
    | 2, _ => simp [Fam.pair, q2dPPair, q2dFam, abcQ2dClenshaw]; ring
    | 3, _ => simp [Fam.pair, q2dPPair, q2dFam, abcQ2dClenshaw]; ring
    | (k+4), _ =>
      have c1 : ((k + 4 : ℕ) == 1) = false := by simp
      have hc : abcQ2dClenshaw (K := F) ((0 : ℕ) : Int) ((k + 4 : ℕ) : Int) = abcQ2d ((0 : ℕ) : Int) ((k + 4 : ℕ) : Int) :=
        clen_gen _ _ (by left; omega) (by left; omega) (by left; omega)
      simp only [Fam.pair, q2dPPair, q2dFam, hc, c1, abcQ2d_zero]
      simp
      ring
  | succ j ih =>
    simp only [Fam.pair, q2dPPair, ih]
    congr 1
    match m, hm, j with
    | 1, _, 0 => simp [q2dFam, abcQ2dClenshaw, q2dPPair]; field_simp; ring
    | 1, _, 1 => simp [q2dFam, abcQ2dClenshaw, q2dPPair]; field_simp; ring
    | 1, _, (i+2) =>
      have hc : abcQ2dClenshaw (K := F) ((i + 2 + 1 : ℕ) : Int) ((1 : ℕ) : Int) = abcQ2d ((i + 2 + 1 : ℕ) : Int) ((1 : ℕ) : Int) :=
        clen_gen _ _ (by right; left; omega) (by left; omega) (by left; omega)
      have b0 : ((i + 2 : ℕ) == 0) = false := by simp
      have b1 : ((i + 2 : ℕ) == 1) = false := by simp
      have b2 : ((i + 2 + 1 : ℕ) == 2) = false := by simp
      simp only [q2dFam, hc, b0, b1, b2]
      simp
      first | (left; ring) | ring
    | (k+2), _, i =>
      have hc : abcQ2dClenshaw (K := F) ((i + 1 : ℕ) : Int) ((k + 2 : ℕ) : Int) = abcQ2d ((i + 1 : ℕ) : Int) ((k + 2 : ℕ) : Int) :=
        clen_gen _ _ (by left; omega) (by right; omega) (by right; omega)
      have n1 : ((k + 2 : ℕ) == 1) = false := by simp
      simp only [q2dFam, hc, n1]
      simp
      first | (left; ring) | ring

theorem q2dFam_p (m : Nat) (hm : 1 ≤ m) (x : F) (n : Nat) : (q2dFam m).p x n = q2dP m x n := by
  simp [Fam.p, q2dP, q2dFam_pair m hm x]

theorem esum_q2d_ne1 (m : Nat) (hm : m ≠ 1) (l : List F) : ∀ k, esum (q2dFam (K := F) m) k l = 0 := by
  apply esum_zero
  intro n
  have : (m == 1) = false := by simpa using hm
  simp [q2dFam, this]

theorem esum_q2d_1_ge3 (l : List F) : ∀ k, esum (q2dFam (K := F) 1) (k+3) l = 0 := by
  induction l with
  | nil => intro k; simp [esum]
  | cons t rest ih => intro k; simp only [esum, ih, q2dFam_e]; simp

/-- what `compute_z_zprime_Q2d` reads off a sweep is the general Clenshaw value of the auxiliary family -/
theorem q2dRead_eq (m : Nat) (al : List F) : q2dRead m al = clenshawVal (q2dFam m) al := by
  by_cases hm : m = 1
  · subst hm
    match al with
    | [] => simp [q2dRead, clenshawVal]
    | [a0] => simp [q2dRead, clenshawVal, esum, q2dFam]; ring
    | [a0, a1] => simp [q2dRead, clenshawVal, esum, q2dFam]; ring
    | [a0, a1, a2] => simp [q2dRead, clenshawVal, esum, q2dFam]; ring
    | a0 :: a1 :: a2 :: a3 :: rest =>
      simp only [q2dRead, clenshawVal, esum, esum_q2d_1_ge3]
      simp [q2dFam]; ring
  · have hb : (m == 1) = false := by simpa using hm
    match al with
    | [] => simp [q2dRead, clenshawVal]
    | a0 :: rest =>
      simp only [q2dRead, clenshawVal, esum_q2d_ne1 m hm]
      simp [hb, q2dFam]; ring

/-- `Σ_n c_n Q_n^m(x)` by Clenshaw = the explicit sum over the value routine's `Q_n^m`, every `m ≥ 1`,
every coefficient list (the `m = 1`, `N > 2` correction `-2/5 α_3` included) -/
theorem q2d_radial (f g : Nat → F) (hf : ∀ n, f n ≠ 0) (m : Nat) (hm : 1 ≤ m) (cs : List F) (x : F) :
    q2dRadial f g m cs x = q2dRadialExplicit f g m cs x := by
  unfold q2dRadial q2dRadialExplicit clenshawQ2d
  rw [q2dRead_eq, clenshaw_general, wsum_congr _ _ (q2dFam_p m hm x)]
  obtain ⟨r0, r1⟩ := q2dQ_rel f g (q2dP m x) hf
  rw [cob2 f g _ _ hf r0 r1]

/-- per-`m` accumulation: every combination of present / absent / empty cosine and sine lists -/
theorem q2d_sag_from (fq gq : Nat → Nat → F) (hf : ∀ m n, fq m n ≠ 0) (cosm sinm : Nat → F) (u : F)
    (ams bms : List (List F)) : ∀ m, 1 ≤ m →
    q2dSagFrom fq gq cosm sinm u m ams bms = q2dSagExplicitFrom fq gq cosm sinm u m ams bms := by
  induction ams generalizing bms with
  | nil =>
    induction bms with
    | nil => intro m _; simp [q2dSagFrom, q2dSagExplicitFrom]
    | cons b bs ihb =>
      intro m hm
      simp only [q2dSagFrom, q2dSagExplicitFrom, ihb (m+1) (by omega), q2d_radial _ _ (hf m) m hm]
      ring
  | cons a as iha =>
    cases bms with
    | nil =>
      intro m hm
      simp only [q2dSagFrom, q2dSagExplicitFrom, iha [] (m+1) (by omega), q2d_radial _ _ (hf m) m hm]
      ring
    | cons b bs =>
      intro m hm
      simp only [q2dSagFrom, q2dSagExplicitFrom, iha bs (m+1) (by omega), q2d_radial _ _ (hf m) m hm]
      ring

theorem q2d_total (f g h : Nat → F) (hf0 : ∀ n, f n ≠ 0) (fq gq : Nat → Nat → F) (hf : ∀ m n, fq m n ≠ 0)
    (cosm sinm : Nat → F) (cm0 : List F) (ams bms : List (List F)) (u : F) :
    q2dSag f g h fq gq cosm sinm cm0 ams bms u = q2dSagExplicit f g h fq gq cosm sinm cm0 ams bms u := by
  unfold q2dSag q2dSagExplicit
  rw [q2d_sag_from fq gq hf cosm sinm u ams bms 1 (le_refl 1)]
  congr 1
  cases cm0 with
  | nil => simp [qbfsSumExplicit, wsum]
  | cons c rest => simp [qbfs_clenshaw f g h hf0]
end Q2d
end C10L
