import PrysmVerif.Lemmas.C06Analysis
import Mathlib.Data.Complex.Basic
/-!
# C06 helper lemmas about the executable model itself: the tabulated variants the driver runs agree with the pure
definitions; the model's complex numbers over `ℝ` are `ℂ`, so the adjoint theorems hold for the very functions the
driver evaluates
-/
set_option linter.unusedSectionVars false
set_option linter.unusedVariables false
set_option linter.unusedSimpArgs false
open Model.C06 Finset C06L
namespace C06L

theorem sumTo_congr {C : Type} [Num C] (n : Nat) (f g : Nat → C) (h : ∀ i, i < n → f i = g i) :
    Num.sumTo n f = Num.sumTo n g := by
  induction n with
  | zero => rfl
  | succ k ih =>
    simp only [Num.sumTo]
    rw [ih (fun i hi => h i (by omega)), h k (by omega)]

/-- the tabulated adjoint the driver runs is the pure `dftBack` inside the extents of the result -/
theorem dftBackT_agrees {K : Type} [Num K] (M m n N : Nat) (Eo y Ei : Mat (Cx K)) (i j : Nat) (hi : i < m) (hj : j < n) :
    (dftBackT M m n N Eo y Ei).fn i j = dftBack Cx.conj M m n N Eo y Ei i j := by
  unfold dftBackT dftBack
  simp only
  rw [Tab.fn_ofFn m n _ i j hi hj]
  unfold matmul
  refine sumTo_congr M _ _ fun l hl => ?_
  rw [Tab.fn_ofFn M n _ l j hl hj]
end C06L
namespace C06L
variable {K : Type} [Num K]

theorem dftBack_congr (M m n N : Nat) (Eo Eo' y y' Ei Ei' : Mat (Cx K))
    (hEo : ∀ l i, l < M → i < m → Eo l i = Eo' l i) (hy : ∀ l k, l < M → k < N → y l k = y' l k)
    (hEi : ∀ j k, j < n → k < N → Ei j k = Ei' j k) (i j : Nat) (hi : i < m) (hj : j < n) :
    dftBack Cx.conj M m n N Eo y Ei i j = dftBack Cx.conj M m n N Eo' y' Ei' i j := by
  unfold dftBack matmul conjT
  refine sumTo_congr M _ _ fun l hl => ?_
  rw [hEo l i hl hi]
  congr 1
  refine sumTo_congr N _ _ fun k hk => ?_
  rw [hy l k hl hk, hEi j k hj hk]

theorem mdftBackT_agrees (cosf sinf sqrtf : K → K) (twoPi sigma : K) (m n M N : Nat) (Qy Qx sx sy : K)
    (y y' : Mat (Cx K)) (hy : ∀ l k, l < M → k < N → y l k = y' l k) (i j : Nat) (hi : i < m) (hj : j < n) :
    (mdftBackT cosf sinf sqrtf twoPi sigma m n M N Qy Qx sx sy y).fn i j
      = mdftBack cosf sinf sqrtf twoPi sigma m n M N Qy Qx sx sy y' i j := by
  unfold mdftBackT mdftBack
  simp only
  rw [dftBackT_agrees M m n N _ _ _ i j hi hj]
  exact dftBack_congr M m n N _ _ _ _ _ _ (fun l i hl hi => Tab.fn_ofFn M m _ l i hl hi) hy
    (fun j k hj hk => Tab.fn_ofFn n N _ j k hj hk) i j hi hj

theorem fixedBackT_agrees (cosf sinf sqrtf : K → K) (twoPi sigma : K) (m n M N : Nat)
    (idx pd wl odx sx sy : K) (y y' : Mat (Cx K)) (hy : ∀ l k, l < M → k < N → y l k = y' l k)
    (i j : Nat) (hi : i < m) (hj : j < n) :
    (fixedBackT cosf sinf sqrtf twoPi sigma m n M N idx pd wl odx sx sy y).fn i j
      = fixedBack cosf sinf sqrtf twoPi sigma m n M N idx pd wl odx sx sy y' i j := by
  unfold fixedBackT fixedBack
  exact mdftBackT_agrees cosf sinf sqrtf twoPi sigma m n M N _ _ _ _ y y' hy i j hi hj

/-- the tabulated `to_fpm_and_back_backprop` the driver runs is the pure model inside the pupil extents -/
theorem fpmBackFullT_agrees (cosf sinf sqrtf : K → K) (twoPi : K) (p0 p1 M0 M1 : Nat)
    (dx efl wl fdx sx sy : K) (mask y y' : Mat (Cx K)) (hy : ∀ l k, l < p0 → k < p1 → y l k = y' l k)
    (i j : Nat) (hi : i < p0) (hj : j < p1) :
    (fpmBackFullT cosf sinf sqrtf twoPi p0 p1 M0 M1 dx efl wl fdx sx sy mask y).fn i j
      = fpmBackFull cosf sinf sqrtf twoPi p0 p1 M0 M1 dx efl wl fdx sx sy mask y' i j := by
  unfold fpmBackFullT fpmBackFull
  simp only
  refine fixedBackT_agrees cosf sinf sqrtf twoPi _ p0 p1 M0 M1 _ _ _ _ _ _ _ _ (fun l k hl hk => ?_) i j hi hj
  rw [Tab.fn_ofFn M0 M1 _ l k hl hk,
    fixedBackT_agrees cosf sinf sqrtf twoPi _ M0 M1 p0 p1 _ _ _ _ _ _ y y' hy l k hl hk]

theorem babinetBackFullT_agrees (cosf sinf sqrtf : K → K) (twoPi : K) (p0 p1 M0 M1 : Nat)
    (dx efl wl fdx : K) (fpm lyot y : Mat (Cx K)) (i j : Nat) (hi : i < p0) (hj : j < p1) :
    (babinetBackFullT cosf sinf sqrtf twoPi p0 p1 M0 M1 dx efl wl fdx fpm lyot y).fn i j
      = babinetBackFull cosf sinf sqrtf twoPi p0 p1 M0 M1 dx efl wl fdx fpm lyot y i j := by
  unfold babinetBackFullT babinetBackFull
  simp only
  rw [Tab.fn_ofFn p0 p1 _ i j hi hj, Tab.fn_ofFn p0 p1 _ i j hi hj,
    fpmBackFullT_agrees cosf sinf sqrtf twoPi p0 p1 M0 M1 dx efl wl fdx _ _ _ _
      (fun i j => Cx.conj (lyot i j) * y i j) (fun l k hl hk => Tab.fn_ofFn p0 p1 _ l k hl hk) i j hi hj]
end C06L
namespace C06L
section
variable {K : Type} [Field K]

theorem cx_ext (a b : Cx K) (h1 : a.re = b.re) (h2 : a.im = b.im) : a = b := by
  cases a; cases b; simp_all

theorem cx_one_mul (a : Cx K) : (Num.ofInt 1 : Cx K) * a = a := by
  apply cx_ext <;> simp [cx_mul_re, cx_mul_im, Num.ofInt]

/-- the concrete mask-and-back adjoint (what the driver runs) is the abstract `fpmBack` with sign `+1`, conjugated mask,
and the matrix-DFT bases built from the model's per-axis Q and shifts -/
theorem fpmBackFull_eq (cosf sinf sqrtf : K → K) (twoPi : K) (p0 p1 M0 M1 : Nat)
    (dx efl wl fdx sx sy : K) (mask y : Mat (Cx K)) :
    fpmBackFull cosf sinf sqrtf twoPi p0 p1 M0 M1 dx efl wl fdx sx sy mask y
      = fpmBack Cx.conj (Num.ofInt 1) true p0 p1 M0 M1
          (mdftBases cosf sinf sqrtf twoPi (Num.ofInt 1) p0 p1 M0 M1 (fixedQ (Num.ofInt (p0 : Int)) dx efl wl fdx)
            (fixedQ (Num.ofInt (p1 : Int)) dx efl wl fdx) (sx / fdx) (sy / fdx)).1
          (mdftBases cosf sinf sqrtf twoPi (Num.ofInt 1) p0 p1 M0 M1 (fixedQ (Num.ofInt (p0 : Int)) dx efl wl fdx)
            (fixedQ (Num.ofInt (p1 : Int)) dx efl wl fdx) (sx / fdx) (sy / fdx)).2
          mask
          (mdftBases cosf sinf sqrtf twoPi (Num.ofInt (-1)) M0 M1 p0 p1 (fixedQ (Num.ofInt (M0 : Int)) fdx efl wl dx)
            (fixedQ (Num.ofInt (M1 : Int)) fdx efl wl dx) (sx * dx / fdx / dx) (sy * dx / fdx / dx)).1
          (mdftBases cosf sinf sqrtf twoPi (Num.ofInt (-1)) M0 M1 p0 p1 (fixedQ (Num.ofInt (M0 : Int)) fdx efl wl dx)
            (fixedQ (Num.ofInt (M1 : Int)) fdx efl wl dx) (sx * dx / fdx / dx) (sy * dx / fdx / dx)).2
          y := by
  unfold fpmBackFull fpmBack fixedBack mdftBack
  simp only [if_true]
  congr 1
  funext i j
  rw [cx_one_mul]
end
end C06L
namespace C06L

/-- the model's complex numbers over `ℝ` are Mathlib's `ℂ` -/
noncomputable def toC (a : Cx ℝ) : ℂ := ⟨a.re, a.im⟩

theorem toC_injective : Function.Injective toC := by
  intro a b h
  cases a; cases b
  simp only [toC, Complex.mk.injEq] at h
  simp [h.1, h.2]

@[simp] theorem toC_add (a b : Cx ℝ) : toC (a + b) = toC a + toC b := by
  apply Complex.ext <;> simp [toC]
@[simp] theorem toC_sub (a b : Cx ℝ) : toC (a - b) = toC a - toC b := by
  apply Complex.ext <;> simp [toC]
@[simp] theorem toC_mul (a b : Cx ℝ) : toC (a * b) = toC a * toC b := by
  apply Complex.ext <;> simp [toC]
@[simp] theorem toC_conj (a : Cx ℝ) : toC (Cx.conj a) = (starRingEnd ℂ) (toC a) := by
  apply Complex.ext <;> simp [toC]
@[simp] theorem toC_ofInt (k : Int) : toC (Num.ofInt k : Cx ℝ) = (k : ℂ) := by
  apply Complex.ext <;> simp [toC, Num.ofInt]

theorem toC_sumTo (n : Nat) (f : Nat → Cx ℝ) : toC (Num.sumTo n f) = ∑ i ∈ range n, toC (f i) := by
  induction n with
  | zero => simp [Num.sumTo]
  | succ k ih => rw [Num.sumTo, toC_add, ih, Finset.sum_range_succ]

theorem toC_ip2 (m n : Nat) (a b : Mat (Cx ℝ)) :
    toC (ip2 Cx.conj m n a b) = ip2 (starRingEnd ℂ) m n (fun i j => toC (a i j)) (fun i j => toC (b i j)) := by
  simp only [ip2, toC_sumTo, toC_mul, toC_conj, sumTo_eq]

theorem toC_matmul (k : Nat) (A B : Mat (Cx ℝ)) (i j : Nat) :
    toC (matmul k A B i j) = matmul k (fun i j => toC (A i j)) (fun i j => toC (B i j)) i j := by
  simp only [matmul, toC_sumTo, toC_mul, sumTo_eq]

theorem toC_dft2 (M m n N : Nat) (Eo f Ei : Mat (Cx ℝ)) :
    (fun i j => toC (dft2 M m n N Eo f Ei i j))
      = dft2 M m n N (fun i j => toC (Eo i j)) (fun i j => toC (f i j)) (fun i j => toC (Ei i j)) := by
  funext i j
  simp only [dft2, matmul, toC_sumTo, toC_mul, sumTo_eq]

theorem toC_idft2 (M m n N : Nat) (Eo f Ei : Mat (Cx ℝ)) :
    (fun i j => toC (idft2 M m n N Eo f Ei i j))
      = idft2 M m n N (fun i j => toC (Eo i j)) (fun i j => toC (f i j)) (fun i j => toC (Ei i j)) := by
  funext i j
  simp only [idft2, matmul, toC_sumTo, toC_mul, sumTo_eq]

theorem toC_dftBack (M m n N : Nat) (Eo y Ei : Mat (Cx ℝ)) :
    (fun i j => toC (dftBack Cx.conj M m n N Eo y Ei i j))
      = dftBack (starRingEnd ℂ) M m n N (fun i j => toC (Eo i j)) (fun i j => toC (y i j)) (fun i j => toC (Ei i j)) := by
  funext i j
  simp only [dftBack, matmul, conjT, toC_sumTo, toC_mul, toC_conj, sumTo_eq]

/-- the adjoint identity for the very functions the driver evaluates (complex numbers as pairs of reals) -/
theorem dft2_adjoint_model (M m n N : Nat) (Eo Ei f y : Mat (Cx ℝ)) :
    ip2 Cx.conj M N y (dft2 M m n N Eo f Ei) = ip2 Cx.conj m n (dftBack Cx.conj M m n N Eo y Ei) f := by
  apply toC_injective
  rw [toC_ip2, toC_ip2, toC_dft2, toC_dftBack]
  exact dft2_adjoint (starRingEnd ℂ) (fun a => by simp) M m n N _ _ _ _

theorem idft2_adjoint_model (M m n N : Nat) (Eo Ei f y : Mat (Cx ℝ)) :
    ip2 Cx.conj M N y (idft2 M m n N Eo f Ei) = ip2 Cx.conj m n (dftBack Cx.conj M m n N Eo y Ei) f := by
  apply toC_injective
  rw [toC_ip2, toC_ip2, toC_idft2, toC_dftBack]
  exact idft2_adjoint (starRingEnd ℂ) (fun a => by simp) M m n N _ _ _ _
end C06L
namespace C06L

theorem toC_fpmFwd (p0 p1 M0 M1 : Nat) (Eo1 Ei1 mask Eo2 Ei2 x : Mat (Cx ℝ)) :
    (fun i j => toC (fpmFwd p0 p1 M0 M1 Eo1 Ei1 mask Eo2 Ei2 x i j))
      = fpmFwd p0 p1 M0 M1 (fun i j => toC (Eo1 i j)) (fun i j => toC (Ei1 i j)) (fun i j => toC (mask i j))
          (fun i j => toC (Eo2 i j)) (fun i j => toC (Ei2 i j)) (fun i j => toC (x i j)) := by
  unfold fpmFwd
  rw [toC_idft2]
  congr 1
  funext i j
  simp only [hadamard, toC_mul]
  rw [← toC_dft2]

theorem toC_fpmBack (p0 p1 M0 M1 : Nat) (Eo1 Ei1 mask Eo2 Ei2 y : Mat (Cx ℝ)) :
    (fun i j => toC (fpmBack Cx.conj (Num.ofInt 1) true p0 p1 M0 M1 Eo1 Ei1 mask Eo2 Ei2 y i j))
      = fpmBack (starRingEnd ℂ) 1 true p0 p1 M0 M1 (fun i j => toC (Eo1 i j)) (fun i j => toC (Ei1 i j))
          (fun i j => toC (mask i j)) (fun i j => toC (Eo2 i j)) (fun i j => toC (Ei2 i j)) (fun i j => toC (y i j)) := by
  unfold fpmBack
  simp only [if_true]
  rw [toC_dftBack]
  congr 1
  funext i j
  simp only [toC_mul, toC_conj, toC_ofInt, Int.cast_one]
  rw [← toC_dftBack]

/-- `to_fpm_and_back_backprop` as the driver evaluates it is the adjoint of `to_fpm_and_back` as modelled, for every
pupil shape, mask shape, complex mask, sampling and shift, and every `cos/sin/sqrt` -/
theorem fpm_adjoint_model (cosf sinf sqrtf : ℝ → ℝ) (twoPi : ℝ) (p0 p1 M0 M1 : Nat)
    (dx efl wl fdx sx sy : ℝ) (mask x y : Mat (Cx ℝ)) :
    ip2 Cx.conj p0 p1 y (fpmFwdFull cosf sinf sqrtf twoPi p0 p1 M0 M1 dx efl wl fdx sx sy mask x)
      = ip2 Cx.conj p0 p1 (fpmBackFull cosf sinf sqrtf twoPi p0 p1 M0 M1 dx efl wl fdx sx sy mask y) x := by
  rw [fpmBackFull_eq]
  unfold fpmFwdFull
  simp only
  apply toC_injective
  rw [toC_ip2, toC_ip2, toC_fpmFwd, toC_fpmBack]
  exact fpm_adjoint' (starRingEnd ℂ) (fun a => by simp) p0 p1 M0 M1 _ _ _ _ _ _ _
end C06L
