import PrysmVerif.Lemmas.C20Jones
import Mathlib.Tactic.Ring
import Mathlib.Tactic.FinCases
import Mathlib.Tactic.LinearCombination
import Mathlib.Data.Complex.Basic
import Mathlib.Data.Complex.BigOperators
import Mathlib.Data.Matrix.Basic
import Mathlib.LinearAlgebra.Matrix.Kronecker
import Mathlib.LinearAlgebra.Matrix.ConjTranspose
import Mathlib.Data.Matrix.Reflection
/-!
# C20 — Jones → Mueller map `J ↦ Re (U (J̄ ⊗ J) U⁻¹)` over Mathlib matrices (helper lemmas)

`U` is kept with rows in `Fin 4` and columns in `Fin 2 × Fin 2` (column `(j, k)` is NumPy's column `2 j + k` of the
Kronecker product), `U⁻¹ = Uᴴ / 2`; the `1/√2` scaling of the source cancels in `U · U⁻¹`.
-/
set_option linter.unnecessarySeqFocus false
set_option linter.unusedSimpArgs false
set_option linter.unusedTactic false
set_option linter.unreachableTactic false
open Model.C20 C17Num Matrix Kronecker Complex

namespace C20Mueller

/-- `U` with rows `Fin 4` and columns `Fin 2 × Fin 2` (column `(j, k)` is NumPy's column `2 j + k`) -/
def Umat (U : Nat → Nat → ℂ) : Matrix (Fin 4) (Fin 2 × Fin 2) ℂ := fun r jk => U r (2 * jk.1 + jk.2)

/-- `Uᴴ / 2` -/
noncomputable def Vmat (U : Nat → Nat → ℂ) : Matrix (Fin 2 × Fin 2) (Fin 4) ℂ :=
  fun jk r => (starRingEnd ℂ) (U r (2 * jk.1 + jk.2)) / 2

noncomputable abbrev U0 : Nat → Nat → ℂ := Model.C20.muellerU Complex.I

theorem U_mul_V : Umat U0 * Vmat U0 = 1 := by
  ext i j
  fin_cases i <;> fin_cases j <;>
    simp [Matrix.mul_apply, Fintype.sum_prod_type, Fin.sum_univ_two, Umat, Vmat, Model.C20.muellerU, ofInt_eq] <;> ring_nf <;> norm_num

theorem V_mul_U : Vmat U0 * Umat U0 = 1 := by
  ext ⟨i1, i2⟩ ⟨j1, j2⟩
  fin_cases i1 <;> fin_cases i2 <;> fin_cases j1 <;> fin_cases j2 <;>
    simp [Matrix.mul_apply, Fin.sum_univ_four, Umat, Vmat, Model.C20.muellerU, ofInt_eq] <;> ring_nf <;> norm_num


/-- `J̄` -/
noncomputable def cj (J : Matrix (Fin 2) (Fin 2) ℂ) : Matrix (Fin 2) (Fin 2) ℂ := J.map (starRingEnd ℂ)

/-- `U (J̄ ⊗ J) U⁻¹` before the real part is taken -/
noncomputable def muellerCU (U : Nat → Nat → ℂ) (J : Matrix (Fin 2) (Fin 2) ℂ) : Matrix (Fin 4) (Fin 4) ℂ :=
  Umat U * (cj J ⊗ₖ J) * Vmat U

noncomputable abbrev muellerC (J : Matrix (Fin 2) (Fin 2) ℂ) : Matrix (Fin 4) (Fin 4) ℂ := muellerCU U0 J

theorem cj_mul (A B : Matrix (Fin 2) (Fin 2) ℂ) : cj (A * B) = cj A * cj B := by
  simp only [cj, Matrix.map_mul]

theorem muellerC_mul (A B : Matrix (Fin 2) (Fin 2) ℂ) : muellerC (A * B) = muellerC A * muellerC B := by
  simp only [muellerC, muellerCU, cj_mul, Matrix.mul_kronecker_mul]
  calc Umat U0 * (cj A ⊗ₖ A * cj B ⊗ₖ B) * Vmat U0
      = Umat U0 * (cj A ⊗ₖ A * (1 * cj B ⊗ₖ B)) * Vmat U0 := by rw [Matrix.one_mul]
    _ = Umat U0 * cj A ⊗ₖ A * Vmat U0 * (Umat U0 * cj B ⊗ₖ B * Vmat U0) := by
        rw [← V_mul_U]; simp only [Matrix.mul_assoc]

theorem muellerC_one : muellerC 1 = 1 := by
  have : cj (1 : Matrix (Fin 2) (Fin 2) ℂ) = 1 := by
    ext i j; simp [cj, Matrix.one_apply]
  simp only [muellerC, muellerCU, this, Matrix.one_kronecker_one, Matrix.mul_one, U_mul_V]

theorem muellerC_real (J : Matrix (Fin 2) (Fin 2) ℂ) (i j : Fin 4) : (muellerC J i j).im = 0 := by
  fin_cases i <;> fin_cases j <;>
    simp [muellerC, muellerCU, cj, Matrix.mul_apply, Fintype.sum_prod_type, Fin.sum_univ_two, Umat, Vmat, Model.C20.muellerU,
      ofInt_eq, Matrix.kroneckerMap_apply] <;> ring_nf


theorem cj_conjTranspose (J : Matrix (Fin 2) (Fin 2) ℂ) : (cj J)ᴴ = cj Jᴴ := by
  ext i j; simp [cj, Matrix.conjTranspose_apply]

theorem cj_one : cj (1 : Matrix (Fin 2) (Fin 2) ℂ) = 1 := by
  ext i j; simp [cj, Matrix.one_apply]

theorem kron_unitary (J : Matrix (Fin 2) (Fin 2) ℂ) (h : J * Jᴴ = 1) : (cj J ⊗ₖ J) * (cj J ⊗ₖ J)ᴴ = 1 := by
  rw [Matrix.conjTranspose_kronecker, ← Matrix.mul_kronecker_mul, h, cj_conjTranspose, ← cj_mul, h, cj_one,
    Matrix.one_kronecker_one]

theorem Vmat_eq : Vmat U0 = (1 / 2 : ℂ) • (Umat U0)ᴴ := by
  ext jk r; simp [Vmat, Umat, Matrix.conjTranspose_apply]; ring

theorem muellerC_conjTranspose (J : Matrix (Fin 2) (Fin 2) ℂ) :
    (muellerC J)ᴴ = Umat U0 * (cj J ⊗ₖ J)ᴴ * Vmat U0 := by
  simp only [muellerC, muellerCU, Matrix.conjTranspose_mul, Vmat_eq, Matrix.conjTranspose_smul, Matrix.conjTranspose_conjTranspose,
    Matrix.mul_smul, Matrix.smul_mul, Matrix.mul_assoc]
  simp

theorem muellerC_unitary (J : Matrix (Fin 2) (Fin 2) ℂ) (h : J * Jᴴ = 1) : muellerC J * (muellerC J)ᴴ = 1 := by
  rw [muellerC_conjTranspose]
  calc muellerC J * (Umat U0 * (cj J ⊗ₖ J)ᴴ * Vmat U0)
      = Umat U0 * ((cj J ⊗ₖ J) * ((Vmat U0 * Umat U0) * (cj J ⊗ₖ J)ᴴ)) * Vmat U0 := by
        simp only [muellerC, muellerCU, Matrix.mul_assoc]
    _ = 1 := by rw [V_mul_U, Matrix.one_mul, kron_unitary J h, Matrix.mul_one, U_mul_V]

/-- the Mueller matrix: real part of `U (J̄ ⊗ J) U⁻¹` -/
noncomputable def muellerU (U : Nat → Nat → ℂ) (J : Matrix (Fin 2) (Fin 2) ℂ) : Matrix (Fin 4) (Fin 4) ℝ :=
  (muellerCU U J).map Complex.re

noncomputable abbrev mueller (J : Matrix (Fin 2) (Fin 2) ℂ) : Matrix (Fin 4) (Fin 4) ℝ := muellerU U0 J

theorem muellerC_eq_ofReal (J : Matrix (Fin 2) (Fin 2) ℂ) : muellerC J = (mueller J).map Complex.ofReal := by
  ext i j
  apply Complex.ext
  · simp [mueller, muellerU]
  · simp [mueller, muellerU]; exact muellerC_real J i j

theorem mueller_mul (A B : Matrix (Fin 2) (Fin 2) ℂ) : mueller (A * B) = mueller A * mueller B := by
  have h := muellerC_mul A B
  rw [muellerC_eq_ofReal A, muellerC_eq_ofReal B, muellerC_eq_ofReal (A * B)] at h
  ext i j
  have hij := congrFun (congrFun h i) j
  simp only [Matrix.map_apply, Matrix.mul_apply] at hij ⊢
  apply Complex.ofReal_injective
  rw [Complex.ofReal_sum]; simp only [Complex.ofReal_mul]
  exact hij

theorem mueller_orthogonal (J : Matrix (Fin 2) (Fin 2) ℂ) (h : J * Jᴴ = 1) : mueller J * (mueller J)ᵀ = 1 := by
  have hu := muellerC_unitary J h
  rw [muellerC_eq_ofReal J] at hu
  ext i j
  have hij := congrFun (congrFun hu i) j
  simp only [Matrix.mul_apply, Matrix.map_apply, Matrix.conjTranspose_apply, Matrix.transpose_apply, Matrix.one_apply,
    Complex.star_def, Complex.conj_ofReal] at hij ⊢
  by_cases e : i = j
  · simp only [e, if_true] at hij ⊢
    apply Complex.ofReal_injective; rw [Complex.ofReal_sum]; simp only [Complex.ofReal_mul, Complex.ofReal_one, Complex.ofReal_zero]; exact hij
  · simp only [e, if_false] at hij ⊢
    apply Complex.ofReal_injective; rw [Complex.ofReal_sum]; simp only [Complex.ofReal_mul, Complex.ofReal_one, Complex.ofReal_zero]; exact hij

theorem mueller_00 (J : Matrix (Fin 2) (Fin 2) ℂ) (h : J * Jᴴ = 1) : mueller J 0 0 = 1 := by
  have h00 := congrFun (congrFun h 0) 0
  have h11 := congrFun (congrFun h 1) 1
  simp [Matrix.mul_apply, Fin.sum_univ_two, Matrix.conjTranspose_apply] at h00 h11
  have : muellerC J 0 0 = 1 := by
    simp [muellerC, muellerCU, cj, Matrix.mul_apply, Fintype.sum_prod_type, Fin.sum_univ_two, Umat, Vmat, Model.C20.muellerU,
      ofInt_eq, Matrix.kroneckerMap_apply]
    linear_combination (1 / 2 : ℂ) * h00 + (1 / 2 : ℂ) * h11
  have e : mueller J 0 0 = (muellerC J 0 0).re := rfl
  rw [e, this]; simp


/-! ## bridge from the 2×2 structure of the model -/
def toMat (J : M22 ℂ) : Matrix (Fin 2) (Fin 2) ℂ := !![J.a, J.b; J.c, J.d]

theorem toMat_mul (A B : M22 ℂ) : toMat (A.mul B) = toMat A * toMat B := by
  ext i j; fin_cases i <;> fin_cases j <;> simp [toMat, M22.mul, Matrix.mul_apply, Fin.sum_univ_two]

theorem toMat_one : toMat (M22.one : M22 ℂ) = 1 := by
  ext i j; fin_cases i <;> fin_cases j <;> simp [toMat, M22.one]

theorem toMat_conjT (A : M22 ℂ) : toMat (C20Jones.conjT A) = (toMat A)ᴴ := by
  ext i j; fin_cases i <;> fin_cases j <;> simp [toMat, C20Jones.conjT, Matrix.conjTranspose_apply]

theorem toMat_injective {A B : M22 ℂ} (h : toMat A = toMat B) : A = B := by
  have e := fun i j => congrFun (congrFun h i) j
  apply C20Jones.M22.ext'
  · simpa [toMat] using e 0 0
  · simpa [toMat] using e 0 1
  · simpa [toMat] using e 1 0
  · simpa [toMat] using e 1 1

end C20Mueller
