import PrysmVerif.Model.C02
import PrysmVerif.Lemmas.C02Unitary
/-!
# C02 — Parseval, inverse and round trip for the matrix DFT / FFT route; pad energy
-/
set_option linter.unusedSectionVars false
set_option linter.unusedVariables false

namespace C01
open Finset Model.C01 Model.C02

variable {R K : Type} [Field R] [CharZero R] [Field K] [CharZero K]
variable {e : R → K} (nrm : R → K)

theorem energy1_eq (cj : K → K) (n : Nat) (g : Nat → K) : energy1 cj n g = ∑ j ∈ range n, g j * cj (g j) := by
  simp only [energy1, sumTo_eq]

theorem energy2_eq (cj : K → K) (m n : Nat) (f : Nat → Nat → K) :
    energy2 cj m n f = ∑ j ∈ range m, ∑ i ∈ range n, f j i * cj (f j i) := by
  simp only [energy2, sumTo_eq]

theorem energy2_eq_sum_energy1 (cj : K → K) (m n : Nat) (f : Nat → Nat → K) :
    energy2 cj m n f = ∑ j ∈ range m, energy1 cj n (f j) := by
  simp only [energy2_eq, energy1_eq]

/-- energy summed column by column -/
theorem energy2_eq_sum_cols (cj : K → K) (m n : Nat) (f : Nat → Nat → K) :
    energy2 cj m n f = ∑ i ∈ range n, energy1 cj m (fun j => f j i) := by
  simp only [energy2_eq, energy1_eq]
  rw [Finset.sum_comm]

/-! ## 1-D -/

theorem mdft1_as_kernel (n M : Nat) (α s : R) (g : Nat → K) (k : Nat) :
    mdft1 e nrm n M α s g k = ∑ j ∈ range n, (nrm α * basisEl e n M α s k j) * g j := by
  simp only [mdft1, sumTo_eq, Finset.mul_sum]
  exact Finset.sum_congr rfl fun j _ => by ring

/-- Parseval for one factor of the matrix DFT on a band-complete grid (`α = 1/M`, `n ≤ M`), any shift -/
theorem mdft1_parseval (he : IsChar e) (hf : IsFaithful e) (cj : K →+* K) (hc : IsConj cj e nrm)
    (n M : Nat) (hn : n ≤ M) (hM : 0 < M) (α s : R) (hα : α = 1 / (M : R)) (hnrm : nrm α * nrm α = 1 / (M : K))
    (g : Nat → K) :
    energy1 cj M (mdft1 e nrm n M α s g) = energy1 cj n g := by
  simp only [energy1_eq, mdft1_as_kernel]
  exact gram_parseval _ _ _ cj (basis_gram nrm he hf cj hc n M hn hM α s hα hnrm) g

/-- the return leg (reflected kernel, same `α`, same shift) inverts the forward leg -/
theorem mdft1_roundtrip (he : IsChar e) (hf : IsFaithful e) (cj : K →+* K) (hc : IsConj cj e nrm)
    (n M : Nat) (hn : n ≤ M) (hM : 0 < M) (α s : R) (hα : α = 1 / (M : R)) (hnrm : nrm α * nrm α = 1 / (M : K))
    (g : Nat → K) (j' : Nat) (hj' : j' < n) :
    mdft1 (fun t => e (-t)) nrm M n α s (mdft1 e nrm n M α s g) j' = g j' := by
  have hG := basis_gram nrm he hf cj hc n M hn hM α s hα hnrm
  rw [← gram_left_inverse _ _ _ cj hG g j' (mem_range.2 hj')]
  rw [mdft1_as_kernel]
  refine Finset.sum_congr rfl fun k _ => ?_
  rw [mdft1_as_kernel, map_mul, hc.nrm_conj]
  congr 2
  unfold basisEl
  rw [hc.e_conj]; congr 1; ring

/-- two 1-D transforms along different axes commute -/
theorem mdft1_comm {eA eB : R → K} (nA MA nB MB : Nat) (αA sA αB sB : R) (g : Nat → Nat → K) (i k : Nat) :
    mdft1 eA nrm nA MA αA sA (fun l => mdft1 eB nrm nB MB αB sB (fun j' => g j' l) k) i
      = mdft1 eB nrm nB MB αB sB (fun j' => mdft1 eA nrm nA MA αA sA (fun l => g j' l) i) k := by
  simp only [mdft1, sumTo_eq, Finset.mul_sum, Finset.sum_mul]
  rw [Finset.sum_comm]
  exact Finset.sum_congr rfl fun j' _ => Finset.sum_congr rfl fun l _ => by ring

theorem mdft1_congr (n M : Nat) (α s : R) {g g' : Nat → K} (h : ∀ j, j < n → g j = g' j) (k : Nat) :
    mdft1 e nrm n M α s g k = mdft1 e nrm n M α s g' k := by
  simp only [mdft1, sumTo_eq]
  congr 1
  exact Finset.sum_congr rfl fun j hj => by rw [h j (mem_range.1 hj)]

/-! ## 2-D, nested form -/

/-- Parseval for the composition of two 1-D factors -/
theorem nested_parseval (he : IsChar e) (hf : IsFaithful e) (cj : K →+* K) (hc : IsConj cj e nrm)
    (m n M N : Nat) (hm : m ≤ M) (hn : n ≤ N) (hM : 0 < M) (hN : 0 < N) (αy αx sy sx : R)
    (hαy : αy = 1 / (M : R)) (hαx : αx = 1 / (N : R))
    (hny : nrm αy * nrm αy = 1 / (M : K)) (hnx : nrm αx * nrm αx = 1 / (N : K)) (f : Nat → Nat → K) :
    energy2 cj M N (fun k l => mdft1 e nrm m M αy sy (fun j => mdft1 e nrm n N αx sx (f j) l) k)
      = energy2 cj m n f := by
  rw [energy2_eq_sum_cols]
  have h1 : ∀ l ∈ range N, energy1 cj M (fun k => mdft1 e nrm m M αy sy (fun j => mdft1 e nrm n N αx sx (f j) l) k)
      = energy1 cj m (fun j => mdft1 e nrm n N αx sx (f j) l) := by
    intro l _
    exact mdft1_parseval nrm he hf cj hc m M hm hM αy sy hαy hny _
  rw [Finset.sum_congr rfl h1, ← energy2_eq_sum_cols, energy2_eq_sum_energy1, energy2_eq_sum_energy1]
  refine Finset.sum_congr rfl fun j _ => ?_
  exact mdft1_parseval nrm he hf cj hc n N hn hN αx sx hαx hnx (f j)

/-- the nested return leg inverts the nested forward leg -/
theorem nested_roundtrip (he : IsChar e) (hf : IsFaithful e) (cj : K →+* K) (hc : IsConj cj e nrm)
    (m n M N : Nat) (hm : m ≤ M) (hn : n ≤ N) (hM : 0 < M) (hN : 0 < N) (αy αx sy sx : R)
    (hαy : αy = 1 / (M : R)) (hαx : αx = 1 / (N : R))
    (hny : nrm αy * nrm αy = 1 / (M : K)) (hnx : nrm αx * nrm αx = 1 / (N : K)) (f : Nat → Nat → K)
    (j i : Nat) (hj : j < m) (hi : i < n) :
    mdft1 (fun t => e (-t)) nrm M m αy sy (fun k => mdft1 (fun t => e (-t)) nrm N n αx sx
        (fun l => mdft1 e nrm m M αy sy (fun j' => mdft1 e nrm n N αx sx (f j') l) k) i) j
      = f j i := by
  have h1 : (fun k => mdft1 (fun t => e (-t)) nrm N n αx sx
        (fun l => mdft1 e nrm m M αy sy (fun j' => mdft1 e nrm n N αx sx (f j') l) k) i)
      = mdft1 e nrm m M αy sy (fun j' => mdft1 (fun t => e (-t)) nrm N n αx sx (mdft1 e nrm n N αx sx (f j')) i) := by
    funext k
    exact mdft1_comm nrm N n m M αx sx αy sy (fun j' l => mdft1 e nrm n N αx sx (f j') l) i k
  rw [h1]
  have h2 : ∀ k, mdft1 e nrm m M αy sy (fun j' => mdft1 (fun t => e (-t)) nrm N n αx sx (mdft1 e nrm n N αx sx (f j')) i) k
      = mdft1 e nrm m M αy sy (fun j' => f j' i) k := by
    intro k
    apply mdft1_congr
    intro j' _
    exact mdft1_roundtrip nrm he hf cj hc n N hn hN αx sx hαx hnx (f j') i hi
  rw [funext h2]
  exact mdft1_roundtrip nrm he hf cj hc m M hm hM αy sy hαy hny (fun j' => f j' i) j hj

/-! ## matrix DFT (2-D) on a band-complete grid -/

theorem energy2_congr (cj : K → K) (m n : Nat) {f g : Nat → Nat → K} (h : ∀ j i, j < m → i < n → f j i = g j i) :
    energy2 cj m n f = energy2 cj m n g := by
  simp only [energy2_eq]
  exact Finset.sum_congr rfl fun j hj => Finset.sum_congr rfl fun i hi => by
    rw [h j i (mem_range.1 hj) (mem_range.1 hi)]

/-- `dft2`/`idft2` onto the full band (`αy = 1/M`, `αx = 1/N`, i.e. `M = m·Qy`, `N = n·Qx`) preserve the energy, any shift -/
theorem mdft2_parseval (he : IsChar e) (hf : IsFaithful e) (cj : K →+* K) (hc : IsConj cj e nrm)
    (m n M N : Nat) (hm : m ≤ M) (hn : n ≤ N) (hM : 0 < M) (hN : 0 < N) (αy αx s0 s1 : R)
    (hαy : αy = 1 / (M : R)) (hαx : αx = 1 / (N : R))
    (hny : nrm αy * nrm αy = 1 / (M : K)) (hnx : nrm αx * nrm αx = 1 / (N : K)) (f : Nat → Nat → K) :
    energy2 cj M N (mdft2 e nrm wiringAxis0 wiringAxis1 (m, n) (M, N) αy αx αy αx (s0, s1) f) = energy2 cj m n f := by
  have : mdft2 e nrm wiringAxis0 wiringAxis1 (m, n) (M, N) αy αx αy αx (s0, s1) f
      = fun k l => mdft1 e nrm m M αy s1 (fun j => mdft1 e nrm n N αx s0 (f j) l) k := by
    funext k l; exact mdft2_eq_nested nrm m n M N αy αx s0 s1 f k l
  rw [this]
  exact nested_parseval nrm he hf cj hc m n M N hm hn hM hN αy αx s1 s0 hαy hαx hny hnx f

/-- band-complete round trip: `idft2(dft2(f))` with the same `α` and the same shift on both legs returns `f` -/
theorem mdft2_roundtrip (he : IsChar e) (hf : IsFaithful e) (cj : K →+* K) (hc : IsConj cj e nrm)
    (m n M N : Nat) (hm : m ≤ M) (hn : n ≤ N) (hM : 0 < M) (hN : 0 < N) (αy αx s0 s1 : R)
    (hαy : αy = 1 / (M : R)) (hαx : αx = 1 / (N : R))
    (hny : nrm αy * nrm αy = 1 / (M : K)) (hnx : nrm αx * nrm αx = 1 / (N : K)) (f : Nat → Nat → K)
    (j i : Nat) (hj : j < m) (hi : i < n) :
    mdftRoundTrip e nrm (m, n) (M, N) αy αx αy αx (s0, s1) f j i = f j i := by
  unfold mdftRoundTrip
  simp only [mdft2_eq_nested]
  exact nested_roundtrip nrm he hf cj hc m n M N hm hn hM hN αy αx s1 s0 hαy hαx hny hnx f j i hj hi

/-! ## FFT route (focus / unfocus) -/

theorem spec1_eq_mdft1_zero_shift (n M : Nat) (α : R) (g : Nat → K) (k : Nat) :
    spec1 e nrm n M α 0 g k = mdft1 e nrm n M α 0 g k := by
  simp only [spec1, mdft1, basisEl, sub_zero]

/-- `focus` / `unfocus` including the zero padding: the energy of the output equals the energy of the input, for every
input shape and every padded shape `≥` it -/
theorem fftRoute2_parseval (he : IsChar e) (hf : IsFaithful e) (cj : K →+* K) (hc : IsConj cj e nrm)
    (m n M' N' : Nat) (hm : m ≤ M') (hn : n ≤ N') (hM : 0 < M') (hN : 0 < N')
    (hny : nrm (1 / (M' : R)) * nrm (1 / (M' : R)) = 1 / (M' : K))
    (hnx : nrm (1 / (N' : R)) * nrm (1 / (N' : R)) = 1 / (N' : K)) (f : Array (Array K)) :
    energy2 cj M' N' (rd2 (fftRoute2 e nrm (m, n) (M', N') (padOffset m M', padOffset n N') f))
      = energy2 cj m n (rd2 f) := by
  have h1 : energy2 cj M' N' (rd2 (fftRoute2 e nrm (m, n) (M', N') (padOffset m M', padOffset n N') f))
      = energy2 cj M' N' (fun k l => mdft1 e nrm m M' (1 / (M' : R)) 0
          (fun j => mdft1 e nrm n N' (1 / (N' : R)) 0 (rd2 f j) l) k) := by
    apply energy2_congr
    intro k l hk hl
    rw [fftRoute2_eq_spec2 nrm he m n M' N' hm hn f k l hk hl, spec2_eq, spec1_eq_mdft1_zero_shift]
    congr 1
    funext j
    exact spec1_eq_mdft1_zero_shift nrm n N' _ _ l
  rw [h1]
  exact nested_parseval nrm he hf cj hc m n M' N' hm hn hM hN _ _ 0 0 rfl rfl hny hnx (rd2 f)

/-- `unfocus(focus(f)) = f` (and, with `e` replaced by its reflection, `focus(unfocus(f)) = f`) for every shape -/
theorem focusUnfocus_id (he : IsChar e) (hf : IsFaithful e) (cj : K →+* K) (hc : IsConj cj e nrm)
    (m n : Nat) (hm : 0 < m) (hn : 0 < n)
    (hny : nrm (1 / (m : R)) * nrm (1 / (m : R)) = 1 / (m : K))
    (hnx : nrm (1 / (n : R)) * nrm (1 / (n : R)) = 1 / (n : K)) (f : Array (Array K))
    (j i : Nat) (hj : j < m) (hi : i < n) :
    rd2 (focusUnfocus e nrm (m, n) f) j i = rd2 f j i := by
  unfold focusUnfocus
  have hp : ∀ a : Nat, padOffset a a = 0 := by intro a; simp [padOffset]
  have hfwd : ∀ (g : Array (Array K)) k l, k < m → l < n →
      rd2 (fftRoute2 e nrm (m, n) (m, n) (0, 0) g) k l
        = mdft1 e nrm m m (1 / (m : R)) 0 (fun j' => mdft1 e nrm n n (1 / (n : R)) 0 (rd2 g j') l) k := by
    intro g k l hk hl
    have := fftRoute2_eq_spec2 nrm he m n m n le_rfl le_rfl g k l hk hl
    rw [hp m, hp n] at this
    rw [this, spec2_eq, spec1_eq_mdft1_zero_shift]
    congr 1
    funext j'
    exact spec1_eq_mdft1_zero_shift nrm n n _ _ l
  have hbwd : ∀ (g : Array (Array K)) k l, k < m → l < n →
      rd2 (fftRoute2 (fun t => e (-t)) nrm (m, n) (m, n) (0, 0) g) k l
        = mdft1 (fun t => e (-t)) nrm m m (1 / (m : R)) 0
            (fun j' => mdft1 (fun t => e (-t)) nrm n n (1 / (n : R)) 0 (rd2 g j') l) k := by
    intro g k l hk hl
    have := fftRoute2_eq_spec2 nrm he.reflect m n m n le_rfl le_rfl g k l hk hl
    rw [hp m, hp n] at this
    rw [this, spec2_eq, spec1_eq_mdft1_zero_shift]
    congr 1
    funext j'
    exact spec1_eq_mdft1_zero_shift nrm n n _ _ l
  rw [hbwd _ j i hj hi]
  have h1 : ∀ k, k < m → mdft1 (fun t => e (-t)) nrm n n (1 / (n : R)) 0
        (rd2 (fftRoute2 e nrm (m, n) (m, n) (0, 0) f) k) i
      = mdft1 (fun t => e (-t)) nrm n n (1 / (n : R)) 0
        (fun l' => mdft1 e nrm m m (1 / (m : R)) 0 (fun j' => mdft1 e nrm n n (1 / (n : R)) 0 (rd2 f j') l') k) i := by
    intro k hk
    apply mdft1_congr
    intro l' hl'
    exact hfwd f k l' hk hl'
  rw [mdft1_congr nrm m m _ 0 h1]
  exact nested_roundtrip nrm he hf cj hc m n m n le_rfl le_rfl hm hn _ _ 0 0 rfl rfl hny hnx (rd2 f) j i hj hi

/-! ## zero padding keeps the energy -/

theorem padv_mul_conj (cj : K →+* K) (n : Nat) (off : ℤ) (x : Nat → K) (t : Nat) :
    padv n off x t * cj (padv n off x t) = padv n off (fun i => x i * cj (x i)) t := by
  unfold padv
  simp only [ofInt_eq, Int.cast_zero]
  split_ifs <;> simp

theorem sum_padv_one (n N' : Nat) (off : ℤ) (h0 : 0 ≤ off) (h1 : off + n ≤ N') (x : Nat → K) :
    ∑ t ∈ range N', padv n off x t = ∑ j ∈ range n, x j := by
  have := sum_padv n N' off h0 h1 x (fun _ => (1 : K))
  simpa using this

/-- `pad2d` (constant 0) only adds zeros: the padded array has the energy of the input, for every pair of shapes
and every admissible offset -/
theorem pad2_energy (cj : K →+* K) (m n M' N' : Nat) (o0 o1 : ℤ) (h0 : 0 ≤ o0) (h0' : o0 + m ≤ M')
    (h1 : 0 ≤ o1) (h1' : o1 + n ≤ N') (f : Array (Array K)) :
    energy2 cj M' N' (rd2 (pad2 (m, n) (M', N') (o0, o1) f)) = energy2 cj m n (rd2 f) := by
  have hP : energy2 cj M' N' (rd2 (pad2 (m, n) (M', N') (o0, o1) f))
      = energy2 cj M' N' (fun u v => padv m o0 (fun j => padv n o1 (rd2 f j) v) u) := by
    apply energy2_congr
    intro u v hu hv
    unfold pad2
    rw [rd2_tab2_lt _ hu hv]
  rw [hP, energy2_eq, energy2_eq]
  have hterm : ∀ u v, padv m o0 (fun j => padv n o1 (rd2 f j) v) u * cj (padv m o0 (fun j => padv n o1 (rd2 f j) v) u)
      = padv m o0 (fun j => padv n o1 (fun i => rd2 f j i * cj (rd2 f j i)) v) u := by
    intro u v
    rw [padv_mul_conj]
    congr 1
    funext j
    exact padv_mul_conj cj n o1 (rd2 f j) v
  simp only [hterm]
  rw [Finset.sum_comm]
  have h2 : ∀ v ∈ range N', ∑ u ∈ range M', padv m o0 (fun j => padv n o1 (fun i => rd2 f j i * cj (rd2 f j i)) v) u
      = ∑ j ∈ range m, padv n o1 (fun i => rd2 f j i * cj (rd2 f j i)) v := by
    intro v _
    exact sum_padv_one m M' o0 h0 h0' _
  rw [Finset.sum_congr rfl h2, Finset.sum_comm]
  refine Finset.sum_congr rfl fun j _ => ?_
  exact sum_padv_one n N' o1 h1 h1' _

/-! ## angular spectrum: the transfer function is a character in `z` -/

theorem aspArg_add (wvl z1 z2 kk : R) : aspArg wvl (z1 + z2) kk = aspArg wvl z1 kk + aspArg wvl z2 kk := by
  simp only [aspArg, ofInt_eq]; push_cast; ring

theorem aspArg_zero (wvl kk : R) : aspArg wvl 0 kk = 0 := by
  simp [aspArg]

theorem aspArg_neg (wvl z kk : R) : aspArg wvl (-z) kk = -aspArg wvl z kk := by
  simp only [aspArg, ofInt_eq]; push_cast; ring

theorem aspTf2_add (he : IsChar e) (shape : Nat × Nat) (wvl dx z1 z2 : R) (p q : Nat) :
    aspTf2 e shape wvl dx (z1 + z2) p q = aspTf2 e shape wvl dx z1 p q * aspTf2 e shape wvl dx z2 p q := by
  simp only [aspTf2, aspTf1, aspArg_add, he.add]; ring

theorem aspTf2_zero (he : IsChar e) (shape : Nat × Nat) (wvl dx : R) (p q : Nat) :
    aspTf2 e shape wvl dx 0 p q = 1 := by
  simp only [aspTf2, aspTf1, aspArg_zero, he.zero, mul_one]

theorem aspTf2_neg (he : IsChar e) (shape : Nat × Nat) (wvl dx z : R) (p q : Nat) :
    aspTf2 e shape wvl dx (-z) p q * aspTf2 e shape wvl dx z p q = 1 := by
  rw [← aspTf2_add he, neg_add_cancel, aspTf2_zero he]

theorem aspTf2_conj (cj : K →+* K) (hc : IsConj cj e nrm) (shape : Nat × Nat) (wvl dx z : R) (p q : Nat) :
    cj (aspTf2 e shape wvl dx z p q) = aspTf2 e shape wvl dx (-z) p q := by
  simp only [aspTf2, aspTf1, map_mul, hc.e_conj, aspArg_neg]

/-- unit modulus: `conj(tf) · tf = 1` for every wavelength, spacing, distance (any sign) and frequency sample -/
theorem aspTf2_unit (he : IsChar e) (cj : K →+* K) (hc : IsConj cj e nrm) (shape : Nat × Nat) (wvl dx z : R) (p q : Nat) :
    cj (aspTf2 e shape wvl dx z p q) * aspTf2 e shape wvl dx z p q = 1 := by
  rw [aspTf2_conj nrm cj hc, aspTf2_neg he]

end C01
