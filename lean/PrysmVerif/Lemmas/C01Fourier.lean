import PrysmVerif.Lemmas.C01Bridge
import Mathlib.Tactic.Ring
import Mathlib.Tactic.FieldSimp
import Mathlib.Tactic.Linarith
/-!
# C01 — the three routes compute the textbook sum (1-D statements over the model's stage functions)
-/
set_option linter.unusedSectionVars false
set_option linter.unusedTactic false
set_option linter.unreachableTactic false

namespace C01
open Finset Model.C01

variable {R K : Type} [Field R] [CharZero R] [Field K] [CharZero K]
variable {e : R → K} (nrm : R → K)

/-! ## matrix DFT -/

/-- the unit phase by which a shifted matrix DFT differs from the textbook sum: depends on the output index only -/
def shiftPhase (e : R → K) (M : Nat) (α s : R) (k : Nat) : K := e (-(α * (s * ((xc M k : R) - s))))

theorem shiftPhase_zero (he : IsChar e) (M : Nat) (α : R) (k : Nat) : shiftPhase e M α 0 k = 1 := by
  simp [shiftPhase, he.zero]

theorem basisEl_eq (he : IsChar e) (n M : Nat) (α s : R) (k j : Nat) :
    basisEl e n M α s k j = shiftPhase e M α s k * e (α * ((xc n j : R) * ((xc M k : R) - s))) := by
  unfold basisEl shiftPhase
  rw [← he.add]; congr 1; ring

theorem mdft1_eq_phase_mul_spec1 (he : IsChar e) (n M : Nat) (α s : R) (g : Nat → K) (k : Nat) :
    mdft1 e nrm n M α s g k = shiftPhase e M α s k * spec1 e nrm n M α s g k := by
  simp only [mdft1, spec1, sumTo_eq, basisEl_eq he, Finset.mul_sum]
  refine Finset.sum_congr rfl fun j _ => ?_
  ring

/-! ## chirp-Z: the Bluestein identity and the wrap-around lemma -/

/-- `2uv = u² + v² − (u−v)²` pushed through the character -/
theorem chirp_identity (he : IsChar e) (α u x : R) (d : ℤ) (hd : u - x = (d : R)) :
    chirp e α x * hval e α d * chirp e α u = e (α * (x * u)) := by
  unfold chirp hval
  simp only [ofInt_eq]
  rw [← he.add, ← he.add]; congr 1
  rw [← hd]; push_cast; ring

/-- wrap-around: for an output index `k < M` and an input index `j < n` the circular lag `(k−j) mod L` reads the
kernel vector at the entry holding lag `k − j + (n//2 − M//2)`: first segment if `k ≥ j`, second segment otherwise,
never the zeroed gap — provided `L ≥ n + M − 1`. -/
theorem cztH_wrap (n M L : Nat) (α : R) (k j : Nat) (hk : k < M) (hj : j < n) (hL : n + M ≤ L + 1) :
    cztH e (cztGlue n M L) α ((((k : ℤ) - (j : ℤ)) % (L : ℤ)).toNat)
      = hval e α ((k : ℤ) - (j : ℤ) + ((n : ℤ) / 2 - (M : ℤ) / 2)) := by
  unfold cztH cztGlue cztStart cen
  simp only
  by_cases hkj : j ≤ k
  · have h1 : ((k : ℤ) - (j : ℤ)) % (L : ℤ) = (k : ℤ) - j := Int.emod_eq_of_lt (by omega) (by omega)
    rw [h1]
    have h2 : (((k : ℤ) - (j : ℤ)).toNat : ℤ) = (k : ℤ) - j := Int.toNat_of_nonneg (by omega)
    rw [h2]
    rw [if_neg (by omega), if_neg (by omega), if_pos (by omega)]
    congr 1; omega
  · have h1 : ((k : ℤ) - (j : ℤ)) % (L : ℤ) = (k : ℤ) - j + L := by
      rw [← Int.add_emod_right]
      exact Int.emod_eq_of_lt (by omega) (by omega)
    rw [h1]
    have h2 : (((k : ℤ) - (j : ℤ) + L).toNat : ℤ) = (k : ℤ) - j + L := Int.toNat_of_nonneg (by omega)
    rw [h2]
    rw [if_neg (by omega), if_pos (by omega)]
    congr 1; omega

theorem sum_range_ite_lt {n L : Nat} (h : n ≤ L) (a y : Nat → K) :
    ∑ t ∈ range L, (if t < n then a t else 0) * y t = ∑ t ∈ range n, a t * y t := by
  rw [← Finset.sum_subset (Finset.range_subset_range.2 h)]
  · exact Finset.sum_congr rfl fun t ht => by rw [if_pos (mem_range.1 ht)]
  · intro t _ ht
    rw [if_neg (by simpa using ht), zero_mul]

/-- Bluestein, 1-D, convolution as a sum: with the index glue of the repaired source and any FFT length
`L ≥ n + M − 1`, the chirp-Z output equals the matrix-DFT factor, for every input, `α` and shift. -/
theorem czt1Conv_eq_mdft1 (he : IsChar e) (n M L : Nat) (α s : R) (g : Nat → K) (k : Nat)
    (hk : k < M) (hL : n + M ≤ L + 1) :
    czt1Conv e nrm (cztGlue n M L) n M L α s g k = mdft1 e nrm n M α s g k := by
  have hnL : n ≤ L := by omega
  simp only [czt1Conv, circConv, mdft1, sumTo_eq, ofInt_eq, Int.cast_zero]
  rw [sum_range_ite_lt hnL, Finset.sum_mul, Finset.mul_sum]
  refine Finset.sum_congr rfl fun j hj => ?_
  have hj' : j < n := mem_range.1 hj
  rw [cztH_wrap n M L α k j hk hj' hL]
  have hd : ((xc M k : R) - s) - ((xc n j : R) - s) = (((k : ℤ) - (j : ℤ) + ((n : ℤ) / 2 - (M : ℤ) / 2) : ℤ) : R) := by
    simp only [xc_eq, xz]; push_cast; ring
  have key := chirp_identity he α ((xc M k : R) - s) ((xc n j : R) - s) _ hd
  unfold cztB cztA basisEl
  rw [← key]; ring

/-! ## FFT-based circular convolution -/

theorem dftL_eq (L : Nat) (x : Nat → K) (q : Nat) :
    dftL e L x q = ∑ t ∈ range L, x t * e (((t : R) * (q : R)) / (L : R)) := by
  simp only [dftL, sumTo_eq, ofInt_eq, Int.cast_natCast]

theorem idftL_eq (L : Nat) (X : Nat → K) (t : Nat) :
    idftL e L X t = (1 / (L : K)) * ∑ q ∈ range L, X q * e (-(((t : R) * (q : R)) / (L : R))) := by
  simp only [idftL, sumTo_eq, ofInt_eq, Int.cast_natCast, Int.cast_one]

theorem circConv_eq (L : Nat) (x y : Nat → K) (k : Nat) :
    circConv L x y k = ∑ t ∈ range L, x t * y ((((k : ℤ) - (t : ℤ)) % (L : ℤ)).toNat) := by
  simp only [circConv, sumTo_eq]

/-- the residue of `k − t` is the only `u < L` with `L ∣ t + u − k` -/
theorem dvd_iff_eq_emod (L : Nat) (hL : 0 < L) (k t u : Nat) (hu : u < L) :
    ((L : ℤ) ∣ (t : ℤ) + (u : ℤ) - (k : ℤ)) ↔ u = (((k : ℤ) - (t : ℤ)) % (L : ℤ)).toNat := by
  have hLz : (0 : ℤ) < L := by exact_mod_cast hL
  have hnn : 0 ≤ ((k : ℤ) - (t : ℤ)) % (L : ℤ) := Int.emod_nonneg _ hLz.ne'
  have hlt : ((k : ℤ) - (t : ℤ)) % (L : ℤ) < L := Int.emod_lt_of_pos _ hLz
  constructor
  · rintro ⟨c, hc⟩
    have h1 : ((k : ℤ) - t) % L = (u : ℤ) := by
      have : (k : ℤ) - t = u + L * (-c) := by linarith
      rw [this, Int.add_mul_emod_self_left]
      exact Int.emod_eq_of_lt (by omega) (by omega)
    rw [h1]; simp
  · intro h
    have h2 : (u : ℤ) = ((k : ℤ) - t) % L := by
      rw [h]; exact Int.toNat_of_nonneg hnn
    have := Int.emod_add_mul_ediv ((k : ℤ) - t) L
    refine ⟨-(((k : ℤ) - t) / L), ?_⟩
    rw [h2]; linarith

/-- the contract under which `scipy.fft` is used in `czt2`: `ifft(fft x · fft y)` is the circular convolution -/
theorem conv_via_dft (he : IsChar e) (hf : IsFaithful e) (L : Nat) (hL : 0 < L) (x y : Nat → K) (k : Nat) :
    idftL e L (fun q => dftL e L x q * dftL e L y q) k = circConv L x y k := by
  have hLK : (L : K) ≠ 0 := Nat.cast_ne_zero.mpr hL.ne'
  have hLR : (L : R) ≠ 0 := Nat.cast_ne_zero.mpr hL.ne'
  rw [idftL_eq, circConv_eq]
  simp only [dftL_eq]
  -- bring the sum over q inside
  have h1 : ∀ q ∈ range L,
      ((∑ t ∈ range L, x t * e ((t : R) * (q : R) / (L : R))) * ∑ u ∈ range L, y u * e ((u : R) * (q : R) / (L : R)))
        * e (-((k : R) * (q : R) / (L : R)))
      = ∑ t ∈ range L, ∑ u ∈ range L, x t * y u * e ((q : R) * ((((t : ℤ) + (u : ℤ) - (k : ℤ) : ℤ) : R) / (L : R))) := by
    intro q _
    rw [Finset.sum_mul_sum, Finset.sum_mul]
    refine Finset.sum_congr rfl fun t _ => ?_
    rw [Finset.sum_mul]
    refine Finset.sum_congr rfl fun u _ => ?_
    have : e ((q : R) * ((((t : ℤ) + (u : ℤ) - (k : ℤ) : ℤ) : R) / (L : R)))
        = e ((t : R) * (q : R) / (L : R)) * e ((u : R) * (q : R) / (L : R)) * e (-((k : R) * (q : R) / (L : R))) := by
      rw [← he.add, ← he.add]; congr 1; push_cast; field_simp; ring
    rw [this]; ring
  rw [Finset.sum_congr rfl h1, Finset.sum_comm]
  rw [Finset.mul_sum]
  refine Finset.sum_congr rfl fun t _ => ?_
  rw [Finset.sum_comm]
  simp only [← Finset.mul_sum, he.ortho hf L hL]
  rw [Finset.sum_eq_single ((((k : ℤ) - (t : ℤ)) % (L : ℤ)).toNat)]
  · rw [if_pos ((dvd_iff_eq_emod L hL k t _ (by
      have hLz : (0 : ℤ) < L := by exact_mod_cast hL
      have := Int.emod_lt_of_pos ((k : ℤ) - t) hLz
      have := Int.emod_nonneg ((k : ℤ) - t) hLz.ne'
      omega)).2 rfl)]
    field_simp
  · intro u hu hne
    rw [if_neg (fun h => hne ((dvd_iff_eq_emod L hL k t u (mem_range.1 hu)).1 h)), mul_zero]
  · intro h
    exfalso; apply h
    have hLz : (0 : ℤ) < L := by exact_mod_cast hL
    have := Int.emod_lt_of_pos ((k : ℤ) - t) hLz
    have := Int.emod_nonneg ((k : ℤ) - t) hLz.ne'
    exact mem_range.2 (by omega)

/-! ## FFT route -/

/-- the 1-D FFT route as a function: `fftshift(fft(ifftshift(pad x)), norm='ortho')` -/
def fftRouteFn (e : R → K) (nrm : R → K) (n N' : Nat) (off : ℤ) (x : Nat → K) (k : Nat) : K :=
  fftshiftv N' (fun q => nrm (1 / (N' : R)) * dftL e N' (ifftshiftv N' (padv n off x)) q) k

theorem sum_padv (n N' : Nat) (off : ℤ) (h0 : 0 ≤ off) (h1 : off + n ≤ N') (x : Nat → K) (E : ℤ → K) :
    ∑ t ∈ range N', padv n off x t * E (t : ℤ) = ∑ j ∈ range n, x j * E ((j : ℤ) + off) := by
  obtain ⟨o, rfl⟩ := Int.eq_ofNat_of_zero_le h0
  have hsub : ∑ t ∈ range N', padv n (o : ℤ) x t * E (t : ℤ) = ∑ t ∈ Ico o (o + n), padv n (o : ℤ) x t * E (t : ℤ) := by
    symm
    apply Finset.sum_subset
    · intro t ht
      simp only [mem_Ico] at ht
      simp only [mem_range]; omega
    · intro t _ hnot
      simp only [mem_Ico] at hnot
      unfold padv
      rw [if_neg (by omega)]
      simp
  rw [hsub, Finset.sum_Ico_eq_sum_range]
  simp only [Nat.add_sub_cancel_left]
  refine Finset.sum_congr rfl fun j hj => ?_
  have hj' := mem_range.1 hj
  unfold padv
  rw [if_pos (by push_cast; omega)]
  congr 2
  · push_cast; simp
  · push_cast; ring

/-- FFT route = textbook sum with `α = 1/N'` (i.e. `Q_eff = N'/n`), `M = N'`, zero shift — provided the pad offset is
`N'//2 − n//2`.  Reindexing modulo `N'`; uses `e k = 1` for integer `k`. -/
theorem fftRouteFn_eq_spec1 (he : IsChar e) (n N' : Nat) (hn : n ≤ N') (x : Nat → K) (k : Nat) (hk : k < N') :
    fftRouteFn e nrm n N' (padOffset n N') x k = spec1 e nrm n N' (1 / (N' : R)) 0 x k := by
  have hN : 0 < N' := by omega
  have hNR : (N' : R) ≠ 0 := Nat.cast_ne_zero.mpr hN.ne'
  have hNz : (0 : ℤ) < N' := by exact_mod_cast hN
  set c : ℤ := (N' : ℤ) / 2 with hc
  unfold fftRouteFn fftshiftv
  simp only [spec1, sumTo_eq, dftL_eq]
  congr 1
  -- the output index after fftshift: k' = k - c + N' w
  set k' : Nat := (k + (N' - N' / 2)) % N' with hk'
  obtain ⟨w, hw⟩ : ∃ w : ℤ, (k' : ℤ) = (k : ℤ) - c + N' * w := by
    refine ⟨1 - ((k + (N' - N' / 2) : ℕ) : ℤ) / N', ?_⟩
    have h1 := Int.emod_add_mul_ediv (((k + (N' - N' / 2) : ℕ)) : ℤ) (N' : ℤ)
    have h2 : ((k' : ℕ) : ℤ) = ((k + (N' - N' / 2) : ℕ) : ℤ) % (N' : ℤ) := by rw [hk']; push_cast; rfl
    have h3 : ((k + (N' - N' / 2) : ℕ) : ℤ) = (k : ℤ) + N' - c := by
      rw [hc]; push_cast
      have : N' / 2 ≤ N' := Nat.div_le_self _ _
      omega
    rw [h2]; linarith
  -- the periodic summand
  let xp : ℤ → K := fun v => if padOffset n N' ≤ v ∧ v < padOffset n N' + n then x ((v - padOffset n N').toNat) else 0
  let F : ℤ → K := fun u => xp (u % N') * e ((((u - c) * ((k : ℤ) - c) : ℤ) : R) / (N' : R))
  have hpx : ∀ t : ℕ, padv n (padOffset n N') x t = xp (t : ℤ) := by
    intro t; simp only [padv, ofInt_eq, Int.cast_zero, xp]
  have hper : ∀ u, F (u + N') = F u := by
    intro u
    show xp ((u + N') % N') * _ = xp (u % N') * _
    rw [Int.add_emod_right]
    congr 1
    apply he.congr_int ((k : ℤ) - c)
    push_cast; field_simp; ring
  have hL : ∑ t ∈ range N', ifftshiftv N' (padv n (padOffset n N') x) t * e ((t : R) * (k' : R) / (N' : R))
      = ∑ t ∈ range N', F ((t : ℤ) + c) := by
    refine Finset.sum_congr rfl fun t _ => ?_
    show padv n (padOffset n N') x ((t + N' / 2) % N') * _ = xp (((t : ℤ) + c) % N') * _
    have hidx : (((t + N' / 2) % N' : ℕ) : ℤ) = ((t : ℤ) + c) % N' := by rw [hc]; push_cast; rfl
    congr 1
    · rw [hpx, hidx]
    · apply he.congr_int ((t : ℤ) * w)
      have : ((k' : ℕ) : R) = (((k' : ℤ)) : R) := by push_cast; rfl
      rw [this, hw]; push_cast; field_simp; ring
  rw [hL, sum_range_periodic_shift hper c]
  have hR : ∑ t ∈ range N', F (t : ℤ)
      = ∑ t ∈ range N', padv n (padOffset n N') x t * e (((((t : ℤ) - c) * ((k : ℤ) - c) : ℤ) : R) / (N' : R)) := by
    refine Finset.sum_congr rfl fun t ht => ?_
    have : ((t : ℤ)) % N' = t := Int.emod_eq_of_lt (by omega) (by have := mem_range.1 ht; omega)
    show xp ((t : ℤ) % N') * _ = _
    rw [this, hpx]
  rw [hR]
  have hoff0 : 0 ≤ padOffset n N' := by unfold padOffset cen; omega
  have hoff1 : padOffset n N' + n ≤ N' := by unfold padOffset cen; omega
  rw [sum_padv n N' (padOffset n N') hoff0 hoff1 x (fun t => e (((((t : ℤ) - c) * ((k : ℤ) - c) : ℤ) : R) / (N' : R)))]
  refine Finset.sum_congr rfl fun j _ => ?_
  congr 2
  simp only [xc_eq, xz, sub_zero]
  unfold padOffset cen
  push_cast; field_simp
  rw [hc]; push_cast; ring

/-! ## the 1-D chirp-Z array pipeline -/

theorem dftL_congr (L : Nat) {x y : Nat → K} (h : ∀ t, t < L → x t = y t) (q : Nat) : dftL e L x q = dftL e L y q := by
  simp only [dftL_eq]
  exact Finset.sum_congr rfl fun t ht => by rw [h t (mem_range.1 ht)]

theorem idftL_congr (L : Nat) {x y : Nat → K} (h : ∀ t, t < L → x t = y t) (q : Nat) : idftL e L x q = idftL e L y q := by
  simp only [idftL_eq]
  congr 1
  exact Finset.sum_congr rfl fun t ht => by rw [h t (mem_range.1 ht)]

/-- the zero-padded, pre-chirped input of the 1-D chirp-Z transform -/
def gbPad (e : R → K) (nrm : R → K) (n : Nat) (α s : R) (g : Nat → K) (j : Nat) : K :=
  if j < n then g j * cztB e nrm n α s j else 0

/-- the array pipeline of `czt1` is the FFT-convolution formula -/
theorem czt1_rd (gl : CztGlue) (n M L : Nat) (α s : R) (g : Array K) (k : Nat) (hk : k < M) (hkL : k < L) :
    rd (czt1 e nrm gl n M L α s g) k
      = idftL e L (fun q => dftL e L (gbPad e nrm n α s (rd g)) q * dftL e L (cztH e gl α) q) k * cztA e M α s k := by
  unfold czt1
  simp only
  rw [rd_tab_lt _ hk, rd_tab_lt _ hkL]
  congr 1
  apply idftL_congr
  intro q hq
  rw [rd_tab_lt _ hq, rd_tab_lt _ hq, rd_tab_lt _ hq]
  congr 1
  · apply dftL_congr; intro t ht; rw [rd_tab_lt _ ht]; simp [gbPad]
  · apply dftL_congr; intro t ht; rw [rd_tab_lt _ ht]

/-- 1-D chirp-Z transform, exactly as computed (FFT convolution), equals the matrix-DFT factor -/
theorem czt1_eq_mdft1 (he : IsChar e) (hf : IsFaithful e) (n M L : Nat) (α s : R) (g : Array K) (k : Nat)
    (hn : 0 < n) (hk : k < M) (hL : n + M ≤ L + 1) :
    rd (czt1 e nrm (cztGlue n M L) n M L α s g) k = mdft1 e nrm n M α s (rd g) k := by
  have hkL : k < L := by omega
  rw [czt1_rd nrm _ n M L α s g k hk hkL, conv_via_dft he hf L (by omega)]
  rw [← czt1Conv_eq_mdft1 nrm he n M L α s (rd g) k hk hL]
  unfold czt1Conv gbPad
  simp only [ofInt_eq, Int.cast_zero]

/-! ## 2-D: matrix DFT -/

/-- the triple product is the composition of the two 1-D factors (rows use `shift[1]`, columns `shift[0]`) -/
theorem mdft2_eq_nested (m n M N : Nat) (αy αx s0 s1 : R) (f : Nat → Nat → K) (k l : Nat) :
    mdft2 e nrm wiringAxis0 wiringAxis1 (m, n) (M, N) αy αx αy αx (s0, s1) f k l
      = mdft1 e nrm m M αy s1 (fun j => mdft1 e nrm n N αx s0 (f j) l) k := by
  simp only [mdft2, mdft1, wiringAxis0, wiringAxis1, sel, sumTo_eq, if_true, one_ne_zero, if_false,
    Finset.mul_sum, Finset.sum_mul]
  refine Finset.sum_congr rfl fun j _ => Finset.sum_congr rfl fun i _ => ?_
  ring

theorem spec2_eq (m n M N : Nat) (αy αx sy sx : R) (f : Nat → Nat → K) (k l : Nat) :
    spec2 e nrm m n M N αy αx sy sx f k l = spec1 e nrm m M αy sy (fun j => spec1 e nrm n N αx sx (f j) l) k := rfl

theorem spec1_smul (n M : Nat) (α s : R) (c : K) (g : Nat → K) (k : Nat) :
    spec1 e nrm n M α s (fun j => c * g j) k = c * spec1 e nrm n M α s g k := by
  simp only [spec1, sumTo_eq, Finset.mul_sum]
  exact Finset.sum_congr rfl fun j _ => by ring

/-- matrix DFT = (unit phase depending on the output sample only) × textbook sum; the phase is 1 at zero shift -/
theorem mdft2_eq_phase_mul_spec2 (he : IsChar e) (m n M N : Nat) (αy αx s0 s1 : R) (f : Nat → Nat → K) (k l : Nat) :
    mdft2 e nrm wiringAxis0 wiringAxis1 (m, n) (M, N) αy αx αy αx (s0, s1) f k l
      = (shiftPhase e M αy s1 k * shiftPhase e N αx s0 l) * spec2 e nrm m n M N αy αx s1 s0 f k l := by
  rw [mdft2_eq_nested, mdft1_eq_phase_mul_spec1 nrm he, spec2_eq]
  simp only [mdft1_eq_phase_mul_spec1 nrm he]
  rw [spec1_smul]; ring

/-! ## 2-D: FFT convolution -/

theorem idftL_mul_const (L : Nat) (X : Nat → K) (c : K) (t : Nat) :
    idftL e L (fun q => X q * c) t = c * idftL e L X t := by
  simp only [idftL_eq, Finset.mul_sum]
  exact Finset.sum_congr rfl fun q _ => by ring

theorem idftL_sum (L : Nat) {ι : Type} (s : Finset ι) (X : ι → Nat → K) (t : Nat) :
    idftL e L (fun q => ∑ p ∈ s, X p q) t = ∑ p ∈ s, idftL e L (X p) t := by
  simp only [idftL_eq, Finset.sum_mul, Finset.mul_sum]
  rw [Finset.sum_comm]

theorem circConv_mul_const (L : Nat) (x y : Nat → K) (c : K) (k : Nat) :
    circConv L (fun t => x t * c) y k = circConv L x y k * c := by
  simp only [circConv_eq, Finset.sum_mul]
  exact Finset.sum_congr rfl fun t _ => by ring

theorem circConv_zero (L : Nat) (y : Nat → K) (k : Nat) : circConv L (fun _ => 0) y k = 0 := by
  simp [circConv_eq]

theorem circConv_congr (L : Nat) {x x' : Nat → K} (y : Nat → K) (h : ∀ t, t < L → x t = x' t) (k : Nat) :
    circConv L x y k = circConv L x' y k := by
  simp only [circConv_eq]
  exact Finset.sum_congr rfl fun t ht => by rw [h t (mem_range.1 ht)]

/-- 2-D convolution theorem for iterated 1-D transforms with a separable kernel -/
theorem conv2_via_dft (he : IsChar e) (hf : IsFaithful e) (K' L : Nat) (hK : 0 < K') (hL : 0 < L)
    (x : Nat → Nat → K) (h0 h1 : Nat → K) (k l : Nat) :
    idftL e K' (fun u => idftL e L (fun q =>
        (dftL e K' (fun p => dftL e L (x p) q) u * dftL e L h1 q) * dftL e K' h0 u) l) k
      = circConv K' (fun p => circConv L (x p) h1 l) h0 k := by
  have inner : ∀ u, idftL e L (fun q =>
        (dftL e K' (fun p => dftL e L (x p) q) u * dftL e L h1 q) * dftL e K' h0 u) l
      = dftL e K' (fun p => circConv L (x p) h1 l) u * dftL e K' h0 u := by
    intro u
    rw [idftL_mul_const, mul_comm]
    congr 1
    have : (fun q => dftL e K' (fun p => dftL e L (x p) q) u * dftL e L h1 q)
        = fun q => ∑ p ∈ range K', (dftL e L (x p) q * dftL e L h1 q) * e (((p : R) * (u : R)) / (K' : R)) := by
      funext q
      rw [dftL_eq, Finset.sum_mul]
      exact Finset.sum_congr rfl fun p _ => by ring
    rw [this, idftL_sum, dftL_eq]
    refine Finset.sum_congr rfl fun p _ => ?_
    rw [idftL_mul_const, conv_via_dft he hf L hL, mul_comm]
  simp only [inner]
  exact conv_via_dft he hf K' hK _ _ k

/-! ## 2-D: the chirp-Z array pipeline -/

theorem rd2_dft2KL (K' L : Nat) (x : Array (Array K)) (u q : Nat) (hu : u < K') (hq : q < L) :
    rd2 (dft2KL e K' L x) u q = dftL e K' (fun p => dftL e L (rd2 x p) q) u := by
  unfold dft2KL
  simp only
  rw [rd2_tab2_lt _ hu hq]
  apply dftL_congr
  intro p hp
  rw [rd2_tab2_lt _ hp hq]

theorem rd2_idft2KL (K' L : Nat) (X : Array (Array K)) (u q : Nat) (hu : u < K') (hq : q < L) :
    rd2 (idft2KL e K' L X) u q = idftL e K' (fun p => idftL e L (rd2 X p) q) u := by
  unfold idft2KL
  simp only
  rw [rd2_tab2_lt _ hu hq]
  apply idftL_congr
  intro p hp
  rw [rd2_tab2_lt _ hp hq]

/-- `gb = ary * bcol * brow`, zero-padded to `(K, L)` -/
def gb2 (e : R → K) (nrm : R → K) (m n : Nat) (αy αx sy sx : R) (f : Nat → Nat → K) (p q : Nat) : K :=
  if p < m ∧ q < n then (f p q * cztB e nrm n αx sx q) * cztB e nrm m αy sy p else 0

/-- the array pipeline of `czt2` is the 2-D FFT-convolution formula -/
theorem czt2_rd (gl0 gl1 : CztGlue) (m n M N K' L : Nat) (αy αx s0 s1 : R) (f : Array (Array K)) (k l : Nat)
    (hk : k < M) (hl : l < N) (hkK : k < K') (hlL : l < L) :
    rd2 (czt2 e nrm wiringAxis0 wiringAxis1 gl0 gl1 (m, n) (M, N) (K', L) αy αx (s0, s1) f) k l
      = (idftL e K' (fun u => idftL e L (fun q =>
          (dftL e K' (fun p => dftL e L (gb2 e nrm m n αy αx s1 s0 (rd2 f) p) q) u * dftL e L (cztH e gl1 αx) q)
            * dftL e K' (cztH e gl0 αy) u) l) k * cztA e N αx s0 l) * cztA e M αy s1 k := by
  unfold czt2
  simp only [wiringAxis0, wiringAxis1, sel, if_true, one_ne_zero, if_false]
  rw [rd2_tab2_lt _ hk hl, rd2_idft2KL _ _ _ _ _ hkK hlL]
  congr 2
  apply idftL_congr
  intro u hu
  apply idftL_congr
  intro q hq
  rw [rd2_tab2_lt _ hu hq, rd_tab_lt _ hq, rd_tab_lt _ hu, rd2_dft2KL _ _ _ _ _ hu hq]
  congr 2
  apply dftL_congr
  intro p hp
  apply dftL_congr
  intro q' hq'
  rw [rd2_tab2_lt _ hp hq']
  simp only [gb2, ofInt_eq, Int.cast_zero]

/-- `czt2`, exactly as computed, equals `dft2` (the triple product) sample for sample: every shape, every output
size, every per-axis `α`, every shift, every admissible FFT length -/
theorem czt2_eq_mdft2 (he : IsChar e) (hf : IsFaithful e) (m n M N K' L : Nat) (αy αx s0 s1 : R)
    (f : Array (Array K)) (k l : Nat) (hm : 0 < m) (hn : 0 < n) (hk : k < M) (hl : l < N)
    (hK : m + M ≤ K' + 1) (hL : n + N ≤ L + 1) :
    rd2 (czt2 e nrm wiringAxis0 wiringAxis1 (cztGlue m M K') (cztGlue n N L) (m, n) (M, N) (K', L) αy αx (s0, s1) f) k l
      = mdft2 e nrm wiringAxis0 wiringAxis1 (m, n) (M, N) αy αx αy αx (s0, s1) (rd2 f) k l := by
  have hkK : k < K' := by omega
  have hlL : l < L := by omega
  rw [czt2_rd nrm _ _ m n M N K' L αy αx s0 s1 f k l hk hl hkK hlL,
    conv2_via_dft he hf K' L (by omega) (by omega), mdft2_eq_nested]
  rw [← czt1Conv_eq_mdft1 nrm he m M K' αy s1 _ k hk hK]
  unfold czt1Conv
  congr 1
  rw [← circConv_mul_const]
  apply circConv_congr
  intro p _
  simp only [ofInt_eq, Int.cast_zero]
  by_cases hp : p < m
  · rw [if_pos hp, ← czt1Conv_eq_mdft1 nrm he n N L αx s0 _ l hl hL]
    unfold czt1Conv
    have : gb2 e nrm m n αy αx s1 s0 (rd2 f) p
        = fun q => (if q < n then rd2 f p q * cztB e nrm n αx s0 q else Num.ofInt 0) * cztB e nrm m αy s1 p := by
      funext q
      simp only [gb2, hp, true_and, ofInt_eq, Int.cast_zero]
      split_ifs <;> simp
    rw [this, circConv_mul_const]; ring
  · rw [if_neg hp]
    have : gb2 e nrm m n αy αx s1 s0 (rd2 f) p = fun _ => 0 := by
      funext q; simp [gb2, hp]
    rw [this, circConv_zero, zero_mul]

/-! ## the FFT-route array pipelines -/

theorem mod_lt' {a N : Nat} (h : 0 < N) : a % N < N := Nat.mod_lt _ h

theorem fftRoute1_rd (n N' : Nat) (off : ℤ) (x : Array K) (k : Nat) (hk : k < N') :
    rd (fftRoute1 e nrm n N' off x) k = fftRouteFn e nrm n N' off (rd x) k := by
  have hN : 0 < N' := by omega
  unfold fftRoute1 fftRouteFn
  simp only [ofInt_eq, Int.cast_one, Int.cast_natCast]
  rw [rd_tab_lt _ hk]
  unfold fftshiftv
  rw [rd_tab_lt _ (mod_lt' hN)]
  simp only []
  congr 1
  apply dftL_congr
  intro t ht
  rw [rd_tab_lt _ ht]
  unfold ifftshiftv
  rw [rd_tab_lt _ (mod_lt' hN)]

/-- `propagation.focus/unfocus`, 1-D: the padded FFT route returns the textbook sum on the grid `Q_eff = N'/n`, `M = N'` -/
theorem fftRoute1_eq_spec1 (he : IsChar e) (n N' : Nat) (hn : n ≤ N') (x : Array K) (k : Nat) (hk : k < N') :
    rd (fftRoute1 e nrm n N' (padOffset n N') x) k = spec1 e nrm n N' (1 / (N' : R)) 0 (rd x) k := by
  rw [fftRoute1_rd nrm n N' _ x k hk, fftRouteFn_eq_spec1 nrm he n N' hn (rd x) k hk]

theorem dftL_zero (L : Nat) (q : Nat) : dftL e L (fun _ => (0 : K)) q = 0 := by
  simp [dftL_eq]

/-- the 2-D array pipeline is the composition of the two 1-D routes -/
theorem fftRoute2_rd (m n M' N' : Nat) (o0 o1 : ℤ) (f : Array (Array K)) (k l : Nat) (hk : k < M') (hl : l < N') :
    rd2 (fftRoute2 e nrm (m, n) (M', N') (o0, o1) f) k l
      = fftRouteFn e nrm m M' o0 (fun j => fftRouteFn e nrm n N' o1 (rd2 f j) l) k := by
  have hM : 0 < M' := by omega
  have hN : 0 < N' := by omega
  set l' := (l + (N' - N' / 2)) % N' with hl'
  have hl'lt : l' < N' := mod_lt' hN
  -- the transform of padded row `u'` along axis 1, evaluated at the output column
  let G : Nat → K := fun u' => nrm (1 / (N' : R)) *
    dftL e N' (ifftshiftv N' (fun v => padv m o0 (fun j => padv n o1 (rd2 f j) v) u')) l'
  have hG : G = padv m o0 (fun j => fftRouteFn e nrm n N' o1 (rd2 f j) l) := by
    funext u'
    show nrm (1 / (N' : R)) * dftL e N' (ifftshiftv N' (fun v => padv m o0 (fun j => padv n o1 (rd2 f j) v) u')) l' = _
    unfold fftRouteFn fftshiftv
    by_cases hc : o0 ≤ (u' : ℤ) ∧ (u' : ℤ) < o0 + m
    · have : (fun v => padv m o0 (fun j => padv n o1 (rd2 f j) v) u') = padv n o1 (rd2 f ((u' : ℤ) - o0).toNat) := by
        funext v; simp only [padv, hc, and_self, if_true]
      rw [this]
      simp only [padv, hc, and_self, if_true]
      rfl
    · have : (fun v => padv m o0 (fun j => padv n o1 (rd2 f j) v) u') = fun _ => 0 := by
        funext v; simp only [padv, hc, if_false, ofInt_eq, Int.cast_zero]
      rw [this]
      have hz : ifftshiftv N' (fun _ => (0 : K)) = fun _ => 0 := rfl
      rw [hz, dftL_zero, mul_zero]
      simp only [padv, hc, if_false, ofInt_eq, Int.cast_zero]
  unfold fftRoute2
  simp only [ofInt_eq, Int.cast_one, Int.cast_natCast]
  rw [rd2_tab2_lt _ hk hl]
  unfold fftshiftv
  beta_reduce
  rw [rd2_tab2_lt _ (mod_lt' hM) (mod_lt' hN)]
  have hR : fftRouteFn e nrm m M' o0 (fun j => fftRouteFn e nrm n N' o1 (rd2 f j) l) k
      = nrm (1 / (M' : R)) * dftL e M' (ifftshiftv M' G) ((k + (M' - M' / 2)) % M') := by rw [hG]; rfl
  rw [hR]
  congr 1
  apply dftL_congr
  intro u hu
  rw [rd2_tab2_lt _ hu hl'lt]
  show _ = G ((u + M' / 2) % M')
  show _ = nrm (1 / (N' : R)) * dftL e N' _ l'
  congr 1
  apply dftL_congr
  intro v hv
  rw [rd2_tab2_lt _ hu hv]
  unfold ifftshiftv
  beta_reduce
  rw [rd2_tab2_lt _ (mod_lt' hM) (mod_lt' hN)]

/-- `propagation.focus/unfocus`: the 2-D padded FFT route returns the textbook sum with zero shift on the grid
`α = 1/M'`, `1/N'` (i.e. `Q_eff = M'/m`, `N'/n`), for every input shape and every padded shape `≥` it. -/
theorem fftRoute2_eq_spec2 (he : IsChar e) (m n M' N' : Nat) (hm : m ≤ M') (hn : n ≤ N') (f : Array (Array K))
    (k l : Nat) (hk : k < M') (hl : l < N') :
    rd2 (fftRoute2 e nrm (m, n) (M', N') (padOffset m M', padOffset n N') f) k l
      = spec2 e nrm m n M' N' (1 / (M' : R)) (1 / (N' : R)) 0 0 (rd2 f) k l := by
  rw [fftRoute2_rd nrm m n M' N' _ _ f k l hk hl, fftRouteFn_eq_spec1 nrm he m M' hm _ k hk, spec2_eq]
  congr 1
  funext j
  rw [fftRouteFn_eq_spec1 nrm he n N' hn _ l hl]

/-! ## inverse chirp-Z by conjugation -/

/-- the laws of complex conjugation used: a ring involution with `conj (e t) = e (−t)` that fixes `√α` -/
structure IsConj (cj : K →+* K) (e : R → K) (nrm : R → K) : Prop where
  e_conj : ∀ t, cj (e t) = e (-t)
  nrm_conj : ∀ a, cj (nrm a) = nrm a
  invol : ∀ z, cj (cj z) = z

theorem rd_map (cj : K →+* K) (a : Array K) (i : Nat) : rd (a.map cj) i = cj (rd a i) := by
  unfold rd
  by_cases h : i < a.size
  · simp [Array.getD, h]
  · simp [Array.getD, h]

theorem rd2_mapArr2 (cj : K →+* K) (a : Array (Array K)) (j i : Nat) :
    rd2 (mapArr2 cj a) j i = cj (rd2 a j i) := by
  unfold rd2 mapArr2
  by_cases h : j < a.size
  · have : (Array.map (fun r => Array.map (⇑cj) r) a).getD j #[] = (a.getD j #[]).map cj := by
      simp [Array.getD, h]
    rw [this, rd_map]
  · have h1 : (Array.map (fun r => Array.map (⇑cj) r) a).getD j #[] = #[] := by simp [Array.getD, h]
    have h2 : a.getD j #[] = #[] := by simp [Array.getD, h]
    rw [h1, h2]
    simp [rd, Array.getD]

/-- conjugating input and output of the forward triple product gives the inverse triple product -/
theorem conj_mdft2 (cj : K →+* K) (hc : IsConj cj e nrm) (w0 w1 : AxisWiring) (shp samples : Nat × Nat)
    (sc0 sc1 a0 a1 : R) (shift : R × R) (f : Nat → Nat → K) (k l : Nat) :
    cj (mdft2 e nrm w0 w1 shp samples sc0 sc1 a0 a1 shift (fun j i => cj (f j i)) k l)
      = mdft2 (fun t => e (-t)) nrm w0 w1 shp samples sc0 sc1 a0 a1 shift f k l := by
  simp only [mdft2, sumTo_eq, map_sum, map_mul, basisEl, hc.e_conj, hc.nrm_conj, hc.invol]

/-- `iczt2 = conj ∘ czt2 ∘ conj` equals `idft2` (the triple product with the reflected kernel), sample for sample -/
theorem iczt2_eq_inverse_mdft2 (he : IsChar e) (hf : IsFaithful e) (cj : K →+* K) (hc : IsConj cj e nrm)
    (m n M N K' L : Nat) (αy αx s0 s1 : R)
    (f : Array (Array K)) (k l : Nat) (hm : 0 < m) (hn : 0 < n) (hk : k < M) (hl : l < N)
    (hK : m + M ≤ K' + 1) (hL : n + N ≤ L + 1) :
    rd2 (iczt2 cj e nrm wiringAxis0 wiringAxis1 (cztGlue m M K') (cztGlue n N L) (m, n) (M, N) (K', L) αy αx (s0, s1) f) k l
      = mdft2 (fun t => e (-t)) nrm wiringAxis0 wiringAxis1 (m, n) (M, N) αy αx αy αx (s0, s1) (rd2 f) k l := by
  unfold iczt2
  rw [rd2_mapArr2, czt2_eq_mdft2 nrm he hf m n M N K' L αy αx s0 s1 _ k l hm hn hk hl hK hL]
  have : rd2 (mapArr2 (⇑cj) f) = fun j i => cj (rd2 f j i) := by
    funext j i; exact rd2_mapArr2 cj f j i
  rw [this, conj_mdft2 nrm cj hc]

end C01
