import PrysmVerif.Model.C17
import PrysmVerif.Lemmas.C17Num
import Mathlib.Tactic.Ring
import Mathlib.Tactic.FieldSimp
import Mathlib.Tactic.Linarith
import Mathlib.Tactic.LinearCombination
import Mathlib.Tactic.Positivity
import Mathlib.Data.Complex.Basic
/-!
# C17 — algebra of characteristic matrices (helper lemmas)

* `M22` over a field: associativity, unit, `prod` (the left fold the code performs) as a right fold;
* lossless matrices `[[p, i q], [i r, s]]` (`p q r s` real, `p s + q r = 1`) are closed under product and
  contain every lossless layer — any number of layers;
* for such a matrix `|A₀₀|² - |A₁₀|² = (n_e cos θ_e)/(n₀ cos θ₀)` for both `A^s` and `A^p`.
-/
namespace C17Film
open Model.C17 C17Num

/-! ## 2×2 matrices over a field -/
section field
variable {K : Type} [Field K]

omit [Field K] in
theorem M22.ext' {x y : M22 K} (ha : x.a = y.a) (hb : x.b = y.b) (hc : x.c = y.c) (hd : x.d = y.d) : x = y := by
  cases x; cases y; simp_all

theorem m_mul_assoc (x y z : M22 K) : (x.mul y).mul z = x.mul (y.mul z) := by
  apply M22.ext' <;> simp only [M22.mul] <;> ring

theorem m_one_mul (x : M22 K) : (M22.one : M22 K).mul x = x := by
  apply M22.ext' <;> simp [M22.mul, M22.one]

theorem m_mul_one (x : M22 K) : x.mul (M22.one : M22 K) = x := by
  apply M22.ext' <;> simp [M22.mul, M22.one]

theorem m_smul_mul (k : K) (x y : M22 K) : (M22.smul k x).mul y = M22.smul k (x.mul y) := by
  apply M22.ext' <;> simp only [M22.mul, M22.smul] <;> ring

theorem m_mul_smul (k : K) (x y : M22 K) : x.mul (M22.smul k y) = M22.smul k (x.mul y) := by
  apply M22.ext' <;> simp only [M22.mul, M22.smul] <;> ring

theorem neg_eq_smul (x : M22 K) : M22.neg x = M22.smul (-1) x := by
  apply M22.ext' <;> simp [M22.neg, M22.smul]

/-- right-fold product `M₁ (M₂ (… M_k))` -/
def prodR : List (M22 K) → M22 K
  | [] => M22.one
  | m :: ms => m.mul (prodR ms)

theorem foldl_mul (ms : List (M22 K)) (acc : M22 K) : ms.foldl M22.mul acc = acc.mul (prodR ms) := by
  induction ms generalizing acc with
  | nil => simp [prodR, m_mul_one]
  | cons m ms ih => simp only [List.foldl_cons, ih, prodR, m_mul_assoc]

/-- the left fold of the code equals the mathematical product -/
theorem prod_eq_prodR (ms : List (M22 K)) : prod ms = prodR ms := by
  cases ms with
  | nil => rfl
  | cons m ms => simp only [prod, foldl_mul, prodR]

theorem prodR_append (xs ys : List (M22 K)) : prodR (xs ++ ys) = (prodR xs).mul (prodR ys) := by
  induction xs with
  | nil => simp [prodR, m_one_mul]
  | cons m ms ih => simp only [List.cons_append, prodR, ih, m_mul_assoc]

theorem prod_append (xs ys : List (M22 K)) : prod (xs ++ ys) = (prod xs).mul (prod ys) := by
  simp only [prod_eq_prodR, prodR_append]

theorem prod_cons (m : M22 K) (ms : List (M22 K)) : prod (m :: ms) = m.mul (prod ms) := by
  simp only [prod_eq_prodR, prodR]

theorem prod_singleton (m : M22 K) : prod [m] = m := rfl

end field

/-! ## lossless matrices -/
open Complex

/-- `[[p, i q], [i r, s]]` with real `p q r s` -/
structure LM where
  p : ℝ
  q : ℝ
  r : ℝ
  s : ℝ

namespace LM
def det (m : LM) : ℝ := m.p * m.s + m.q * m.r
def mul (x y : LM) : LM :=
  ⟨x.p * y.p - x.q * y.r, x.p * y.q + x.q * y.s, x.r * y.p + x.s * y.r, x.s * y.s - x.r * y.q⟩
def one : LM := ⟨1, 0, 0, 1⟩
def toC (m : LM) : M22 ℂ := ⟨m.p, I * m.q, I * m.r, m.s⟩

theorem det_mul (x y : LM) : (x.mul y).det = x.det * y.det := by simp only [mul, det]; ring
theorem det_one : one.det = 1 := by simp [one, det]

theorem toC_one : one.toC = (M22.one : M22 ℂ) := by
  apply M22.ext' <;> simp [toC, one, M22.one]

theorem toC_mul (x y : LM) : (x.mul y).toC = x.toC.mul y.toC := by
  apply M22.ext' <;> simp only [toC, mul, M22.mul] <;> push_cast
  · linear_combination (-(x.q * y.r) : ℂ) * I_sq
  · ring
  · ring
  · linear_combination (-(x.r * y.q) : ℂ) * I_sq
end LM

/-- the lossless layer `[[cos β, -i sin β / η], [-i η sin β, cos β]]` -/
noncomputable def layerLM (cb sb η : ℝ) : LM := ⟨cb, -sb / η, -η * sb, cb⟩

theorem layerLM_det (cb sb η : ℝ) (h : sb ^ 2 + cb ^ 2 = 1) (hη : η ≠ 0) : (layerLM cb sb η).det = 1 := by
  simp only [layerLM, LM.det]; field_simp; linear_combination h

/-- a real layer: `sin β`, `cos β`, `cos θ`, `n` -/
structure Layer where
  sb : ℝ
  cb : ℝ
  ct : ℝ
  n : ℝ

def Layer.ok (l : Layer) : Prop := l.sb ^ 2 + l.cb ^ 2 = 1 ∧ l.ct ≠ 0 ∧ l.n ≠ 0

theorem layerP_toC (l : Layer) :
    layerP (-I) (l.sb : ℂ) l.cb l.ct l.n = (layerLM l.cb l.sb (l.n / l.ct)).toC := by
  apply M22.ext' <;> simp only [layerP, layerLM, LM.toC] <;> push_cast <;> ring_nf
  simp only [inv_inv]; ring

theorem layerS_toC (l : Layer) :
    layerS (-I) (l.sb : ℂ) l.cb l.ct l.n = (layerLM l.cb l.sb (l.n * l.ct)).toC := by
  apply M22.ext' <;> simp only [layerS, layerLM, LM.toC] <;> push_cast <;> ring_nf

/-- closure: a product of lossless matrices of determinant one is lossless of determinant one -/
theorem prod_lossless (ms : List LM) (h : ∀ m ∈ ms, m.det = 1) :
    ∃ m : LM, m.det = 1 ∧ prod (ms.map LM.toC) = m.toC := by
  induction ms with
  | nil => exact ⟨LM.one, LM.det_one, by simp [prod, LM.toC_one]⟩
  | cons x xs ih =>
    obtain ⟨m, hm, e⟩ := ih (fun y hy => h y (by simp [hy]))
    refine ⟨x.mul m, ?_, ?_⟩
    · rw [LM.det_mul, hm, h x (by simp)]; ring
    · rw [List.map_cons, prod_cons, e, LM.toC_mul]

/-! ## `|A₀₀|² - |A₁₀|²` for a lossless product -/

theorem normSq_re_im (x y : ℝ) : normSq ((x : ℂ) + I * y) = x ^ 2 + y ^ 2 := by
  rw [mul_comm, normSq_add_mul_I]

theorem amatS_entries (m : LM) (n0 c0 ne ce : ℝ) :
    (amatS (n0 : ℂ) c0 m.toC ne ce).a =
      ((n0 * c0 * m.p + m.s * (ne * ce)) / (2 * n0 * c0) : ℝ) + I * ((n0 * c0 * m.q * (ne * ce) + m.r) / (2 * n0 * c0) : ℝ) ∧
    (amatS (n0 : ℂ) c0 m.toC ne ce).c =
      ((n0 * c0 * m.p - m.s * (ne * ce)) / (2 * n0 * c0) : ℝ) + I * ((n0 * c0 * m.q * (ne * ce) - m.r) / (2 * n0 * c0) : ℝ) := by
  constructor <;> simp only [amatS, M22.mul, M22.smul, LM.toC, ofInt_eq] <;> push_cast <;> ring

theorem amatP_entries (m : LM) (n0 c0 ne ce : ℝ) :
    (amatP (n0 : ℂ) c0 m.toC ne ce).a =
      ((n0 * m.p * ce + c0 * m.s * ne) / (2 * n0 * c0) : ℝ) + I * ((n0 * m.q * ne + c0 * m.r * ce) / (2 * n0 * c0) : ℝ) ∧
    (amatP (n0 : ℂ) c0 m.toC ne ce).c =
      ((n0 * m.p * ce - c0 * m.s * ne) / (2 * n0 * c0) : ℝ) + I * ((n0 * m.q * ne - c0 * m.r * ce) / (2 * n0 * c0) : ℝ) := by
  constructor <;> simp only [amatP, M22.mul, M22.smul, LM.toC, ofInt_eq] <;> push_cast <;> ring

theorem amatS_energy (m : LM) (hm : m.det = 1) (n0 c0 ne ce : ℝ) (h0 : n0 * c0 ≠ 0) :
    normSq (amatS (n0 : ℂ) c0 m.toC ne ce).a - normSq (amatS (n0 : ℂ) c0 m.toC ne ce).c = (ne * ce) / (n0 * c0) := by
  obtain ⟨ea, ec⟩ := amatS_entries m n0 c0 ne ce
  rw [ea, ec, normSq_re_im, normSq_re_im]
  have hn : n0 ≠ 0 := left_ne_zero_of_mul h0
  have hc : c0 ≠ 0 := right_ne_zero_of_mul h0
  simp only [LM.det] at hm
  field_simp
  linear_combination (4 * n0 * c0 * ne * ce) * hm

theorem amatP_energy (m : LM) (hm : m.det = 1) (n0 c0 ne ce : ℝ) (h0 : n0 * c0 ≠ 0) :
    normSq (amatP (n0 : ℂ) c0 m.toC ne ce).a - normSq (amatP (n0 : ℂ) c0 m.toC ne ce).c = (ne * ce) / (n0 * c0) := by
  obtain ⟨ea, ec⟩ := amatP_entries m n0 c0 ne ce
  rw [ea, ec, normSq_re_im, normSq_re_im]
  have hn : n0 ≠ 0 := left_ne_zero_of_mul h0
  have hc : c0 ≠ 0 := right_ne_zero_of_mul h0
  simp only [LM.det] at hm
  field_simp
  linear_combination (4 * n0 * c0 * ne * ce) * hm

/-- from `|a|² - |c|² = τ > 0`: `|c/a|² + τ |1/a|² = 1` -/
theorem rt_of_energy (a c : ℂ) (τ : ℝ) (hτ : 0 < τ) (h : normSq a - normSq c = τ) :
    normSq (c / a) + τ * normSq (1 / a) = 1 := by
  have hc : 0 ≤ normSq c := normSq_nonneg c
  have ha : normSq a ≠ 0 := by
    have : 0 < normSq a := by linarith
    exact ne_of_gt this
  rw [normSq_div, normSq_div, normSq_one]
  field_simp
  linarith

end C17Film
