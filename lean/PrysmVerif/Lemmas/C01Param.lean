import PrysmVerif.Lemmas.C01Fourier
/-!
# C01 — the parameterised routes (`czt2G`, `mdft2G`, `fftRoute2G`) at the reference values are the routes of
`C01Fourier`; kernels with an explicit sign are characters
-/
set_option linter.unusedSectionVars false
set_option linter.unusedVariables false

namespace C01
open Finset Model.C01

variable {R K : Type} [Field R] [CharZero R] [Field K] [CharZero K]
variable {e : R → K} (nrm : R → K)

theorem kernS_neg_one : kernS (-1) e = e := by
  funext t; simp [kernS]

theorem kernS_one : kernS 1 e = fun t => e (-t) := by
  funext t; simp [kernS]

/-- a character composed with multiplication by an integer is a character -/
theorem isChar_kernS (he : IsChar e) (s : Int) : IsChar (kernS s e) where
  add a b := by simp only [kernS, mul_add, he.add]
  zero := by simp [kernS, he.zero]
  int k := by
    simp only [kernS, ofInt_eq]
    have := he.int (-s * k)
    rw [← this]; congr 1; push_cast; ring

theorem chirpS_neg_one (α x : R) : chirpS (-1) e α x = chirp e α x := by
  simp [chirpS, chirp, kernS]

theorem chirpS_one (α : R) (j : Int) : chirpS 1 e α (Num.ofInt j) = hval e α j := by
  simp [chirpS, hval, kernS]

theorem cztAS_ref (M : Nat) (α s : R) (k : Nat) : cztAS cztSignsRef e M α s k = cztA e M α s k := by
  simp only [cztAS, cztA, cztSignsRef, chirpS_neg_one, ofInt_eq]
  congr 1; push_cast; ring

theorem cztBS_ref (n : Nat) (α s : R) (j : Nat) : cztBS cztSignsRef e nrm n α s j = cztB e nrm n α s j := by
  simp only [cztBS, cztB, cztSignsRef, chirpS_neg_one, ofInt_eq]
  congr 2; push_cast; ring

theorem cztHS_ref (gl : CztGlue) (α : R) (t : Nat) : cztHS cztSignsRef e gl α t = cztH e gl α t := by
  simp only [cztHS, cztH, cztSignsRef, chirpS_one]

/-- the interpreter at the reference stage list and signs computes the same samples as `czt2` -/
theorem czt2G_ref_rd (gl0 gl1 : CztGlue) (m n M N K' L : Nat) (αy αx s0 s1 : R) (f : Array (Array K)) (k l : Nat)
    (hk : k < M) (hl : l < N) (hkK : k < K') (hlL : l < L) :
    rd2 (czt2G cztSignsRef cztStagesRef e nrm wiringAxis0 wiringAxis1 gl0 gl1 (m, n) (M, N) (K', L) αy αx (s0, s1) f) k l
      = rd2 (czt2 e nrm wiringAxis0 wiringAxis1 gl0 gl1 (m, n) (M, N) (K', L) αy αx (s0, s1) f) k l := by
  rw [czt2_rd nrm gl0 gl1 m n M N K' L αy αx s0 s1 f k l hk hl hkK hlL]
  simp only [czt2G, cztStagesRef, List.foldl, wiringAxis0, wiringAxis1, sel, if_true, one_ne_zero, if_false]
  rw [rd2_tab2_lt _ hk hl, rd2_tab2_lt _ hk hl, rd2_idft2KL _ _ _ _ _ hkK hlL, cztAS_ref, cztAS_ref]
  congr 2
  apply idftL_congr
  intro u hu
  apply idftL_congr
  intro q hq
  rw [rd2_tab2_lt _ hu hq, rd2_dft2KL _ _ _ _ _ hu hq]
  congr 1
  · congr 1
    · apply dftL_congr
      intro p hp
      apply dftL_congr
      intro q' hq'
      rw [rd2_tab2]
      simp only [gb2, cztBS_ref]
    · apply dftL_congr; intro t _; exact cztHS_ref gl1 αx t
  · apply dftL_congr; intro t _; exact cztHS_ref gl0 αy t

theorem fftRoute2G_focus_ref (shp out : Nat × Nat) (off : Int × Int) (f : Array (Array K)) :
    fftRoute2G focusFlagsRef e nrm shp out off f = fftRoute2 e nrm shp out off f := by
  simp only [fftRoute2G, fftRoute2, focusFlagsRef, shiftG, normG, Bool.not_true, if_true, Bool.false_eq_true, if_false]

theorem fftRoute2G_unfocus_ref (shp out : Nat × Nat) (off : Int × Int) (f : Array (Array K)) :
    fftRoute2G unfocusFlagsRef e nrm shp out off f = fftRoute2 (fun t => e (-t)) nrm shp out off f := by
  simp only [fftRoute2G, fftRoute2, unfocusFlagsRef, shiftG, normG, Bool.not_true, if_true, Bool.false_eq_true, if_false]

end C01
