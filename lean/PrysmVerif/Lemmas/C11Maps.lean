import PrysmVerif.Lemmas.C11Basic
/-!
# C11 — the closed-form index maps are mutually inverse bijections onto the valid orders
(every index, every valid pair; no bound)
-/
namespace Model.C11

theorem sq_emod_two (n : Int) : (n * n) % 2 = n % 2 := by
  rcases Int.emod_two_eq_zero_or_one n with h | h <;> rw [Int.mul_emod, h] <;> simp

/-! ## ANSI -/

/-- row / position decomposition behind the ANSI map -/
theorem ansi_decomp (j : Int) (hj : 0 ≤ j) :
    ∃ n k : Int, 0 ≤ k ∧ k ≤ n ∧ j = tri n + k ∧ ansiJToNm j = (n, 2 * k - n) := by
  obtain ⟨b1, b2⟩ := triRoot_bounds j.toNat
  have e : ((j.toNat : Nat) : Int) = j := Int.toNat_of_nonneg hj
  rw [e] at b1 b2
  refine ⟨triRoot j.toNat, j - tri (triRoot j.toNat), by omega, by omega, by omega, ?_⟩
  unfold ansiJToNm
  have t := two_mul_tri (triRoot j.toNat)
  simp only [Prod.mk.injEq, true_and]
  have : ((triRoot j.toNat : Nat) : Int) * (triRoot j.toNat + 2) = (triRoot j.toNat : Int) * (triRoot j.toNat + 1) + triRoot j.toNat := by ring
  omega

theorem ansi_valid (j : Int) (hj : 0 ≤ j) : Valid (ansiJToNm j).1 (ansiJToNm j).2 := by
  obtain ⟨n, k, h0, h1, _, e⟩ := ansi_decomp j hj
  rw [e]; simp only [Valid, iabs]; constructor <;> split <;> omega

theorem ansi_left_inv (j : Int) : nmToAnsiJ (ansiJToNm j).1 (ansiJToNm j).2 = j := by
  unfold nmToAnsiJ ansiJToNm; simp only; omega

theorem ansi_right_inv (n m : Int) (h : Valid n m) :
    0 ≤ nmToAnsiJ n m ∧ ansiJToNm (nmToAnsiJ n m) = (n, m) := by
  simp only [Valid, iabs] at h
  obtain ⟨h1, h2⟩ := h
  have hn : 0 ≤ n := by split at h1 <;> omega
  have hpar : (n * (n + 2) + m) % 2 = 0 := by
    have e : n * (n + 2) + m = n * n + (2 * n + m) := by ring
    have s := sq_emod_two n
    rw [e]; split at h2 <;> omega
  have t := two_mul_tri n
  have e2 : n * (n + 2) = n * (n + 1) + n := by ring
  have hj : 2 * nmToAnsiJ n m = n * (n + 2) + m := by unfold nmToAnsiJ; omega
  have tn := tri_nonneg n hn
  have hj0 : 0 ≤ nmToAnsiJ n m := by split at h1 <;> omega
  refine ⟨hj0, ?_⟩
  have hr : (triRoot (nmToAnsiJ n m).toNat : Int) = n := by
    apply triRoot_eq _ n hn
    · rw [Int.toNat_of_nonneg hj0]; split at h1 <;> omega
    · rw [Int.toNat_of_nonneg hj0]; split at h1 <;> omega
  unfold ansiJToNm
  simp only [hr, Prod.mk.injEq, true_and]
  omega

/-- the published ANSI rule, with exact division -/
theorem ansi_formula (n m : Int) (h : Valid n m) : 2 * nmToAnsiJ n m = n * (n + 2) + m := by
  simp only [Valid, iabs] at h
  obtain ⟨h1, h2⟩ := h
  have e : n * (n + 2) + m = n * n + (2 * n + m) := by ring
  have s := sq_emod_two n
  unfold nmToAnsiJ
  have : (n * (n + 2) + m) % 2 = 0 := by rw [e]; split at h2 <;> omega
  omega

/-! ## Fringe -/

theorem fringe_decomp (j : Int) (hj : 1 ≤ j) :
    ∃ k r : Int, 0 ≤ k ∧ 0 ≤ r ∧ r ≤ 2 * k ∧ j = k * k + 1 + r ∧
      fringeToNm j = (k + r / 2, (k - r / 2) * (1 - 2 * (r % 2))) := by
  obtain ⟨k, hk, hlo, hhi⟩ := ceilSqrt_spec j.toNat (by omega)
  have e : ((j.toNat : Nat) : Int) = j := Int.toNat_of_nonneg (by omega)
  have hlo' : (k : Int) * k < j := by rw [← e]; exact_mod_cast hlo
  have hhi' : j ≤ ((k : Int) + 1) * (k + 1) := by rw [← e]; exact_mod_cast hhi
  have hk0 : (0 : Int) ≤ k := Int.natCast_nonneg k
  refine ⟨k, j - k * k - 1, hk0, by omega, by nlinarith, by ring, ?_⟩
  unfold fringeToNm pyCeilSqrt
  rw [hk]
  push_cast
  have hkk : ((k : Int) + 1 - 1) = k := by ring
  simp only [hkk, Prod.mk.injEq, true_and]
  ring

theorem fringe_valid (j : Int) (hj : 1 ≤ j) : Valid (fringeToNm j).1 (fringeToNm j).2 := by
  obtain ⟨k, r, hk, hr0, hr1, _, e⟩ := fringe_decomp j hj
  rw [e]
  rcases Int.emod_two_eq_zero_or_one r with h | h
  · rw [h]; simp only [Valid, iabs]
    have : (k - r / 2) * (1 - 2 * 0) = k - r / 2 := by ring
    rw [this]; constructor <;> split <;> omega
  · rw [h]; simp only [Valid, iabs]
    have : (k - r / 2) * (1 - 2 * 1) = -(k - r / 2) := by ring
    rw [this]; constructor <;> split <;> omega

theorem fringe_left_inv (j : Int) (hj : 1 ≤ j) : nmToFringe (fringeToNm j).1 (fringeToNm j).2 = j := by
  obtain ⟨k, r, hk, hr0, hr1, hj', e⟩ := fringe_decomp j hj
  rw [e]
  unfold nmToFringe
  simp only
  rcases Int.emod_two_eq_zero_or_one r with h | h
  · rw [h]
    have hm : (k - r / 2) * (1 - 2 * 0) = k - r / 2 := by ring
    rw [hm]
    have hmn : 0 ≤ k - r / 2 := by omega
    have ha : iabs (k - r / 2) = k - r / 2 := by unfold iabs; split <;> omega
    rw [ha, if_pos hmn]
    have : (k + r / 2 + (k - r / 2)) / 2 = k := by omega
    rw [this, hj']
    have : r = 2 * (r / 2) := by omega
    nlinarith
  · rw [h]
    have hm : (k - r / 2) * (1 - 2 * 1) = -(k - r / 2) := by ring
    rw [hm]
    have hmn : 0 < k - r / 2 := by omega
    have hneg : ¬ (0 ≤ -(k - r / 2)) := by omega
    have ha : iabs (-(k - r / 2)) = k - r / 2 := by unfold iabs; split <;> omega
    rw [ha, if_neg hneg]
    have : (k + r / 2 + (k - r / 2)) / 2 = k := by omega
    rw [this, hj']
    have : r = 2 * (r / 2) + 1 := by omega
    nlinarith

theorem fringe_right_inv (n m : Int) (h : Valid n m) :
    1 ≤ nmToFringe n m ∧ fringeToNm (nmToFringe n m) = (n, m) := by
  simp only [Valid] at h
  obtain ⟨h1, h2⟩ := h
  have ha0 : 0 ≤ iabs m := by unfold iabs; split <;> omega
  -- k = (n + |m|) / 2, n + |m| = 2 k
  obtain ⟨k, hk⟩ : ∃ k : Int, n + iabs m = 2 * k := ⟨(n + iabs m) / 2, by omega⟩
  have hka : iabs m ≤ k := by omega
  have hk0 : 0 ≤ k := by omega
  set s : Int := if 0 ≤ m then 1 else 0 with hs
  have hs01 : (s = 1 ∧ 0 ≤ m) ∨ (s = 0 ∧ m < 0 ∧ 1 ≤ iabs m) := by
    by_cases hm : 0 ≤ m
    · left; exact ⟨by simp [hs, hm], hm⟩
    · right; refine ⟨by simp [hs, hm], by omega, ?_⟩
      unfold iabs; split <;> omega
  have hj : nmToFringe n m = k * k + 1 + (2 * (k - iabs m) + 1 - s) := by
    unfold nmToFringe
    simp only
    have : (n + iabs m) / 2 = k := by omega
    rw [this, ← hs]; ring
  set r := 2 * (k - iabs m) + 1 - s with hr
  have hr0 : 0 ≤ r := by omega
  have hr1 : r ≤ 2 * k := by omega
  have hj1 : 1 ≤ nmToFringe n m := by rw [hj]; nlinarith
  refine ⟨hj1, ?_⟩
  -- ceilSqrt of the index is k + 1
  have hc : pyCeilSqrt (nmToFringe n m) = k + 1 := by
    unfold pyCeilSqrt
    have hkn : ((k.toNat : Nat) : Int) = k := Int.toNat_of_nonneg hk0
    have hjn : (((nmToFringe n m).toNat : Nat) : Int) = nmToFringe n m := Int.toNat_of_nonneg (by omega)
    have := ceilSqrt_eq_succ (nmToFringe n m).toNat k.toNat
      (by have : (k.toNat : Int) * k.toNat < (nmToFringe n m).toNat := by rw [hkn, hjn, hj]; nlinarith
          exact_mod_cast this)
      (by have : ((nmToFringe n m).toNat : Int) ≤ ((k.toNat : Int) + 1) * (k.toNat + 1) := by
            rw [hkn, hjn, hj]; nlinarith
          exact_mod_cast this)
    rw [this]; push_cast; omega
  unfold fringeToNm
  rw [hc]
  have hkk : k + 1 - 1 = k := by ring
  simp only [hkk]
  have hrr : nmToFringe n m - k * k - 1 = r := by rw [hj]; ring
  rw [hrr]
  rcases hs01 with ⟨s1, hm⟩ | ⟨s0, hm, ha1⟩
  · have hre : r = 2 * (k - iabs m) := by omega
    have hrm : r % 2 = 0 := by omega
    have hrd : r / 2 = k - iabs m := by omega
    rw [hrm, hrd]
    have : iabs m = m := by unfold iabs; split <;> omega
    simp only [Prod.mk.injEq]
    constructor
    · omega
    · have : (2 * k - (k + (k - iabs m))) * (1 - 2 * 0) = iabs m := by ring
      rw [this]; assumption
  · have hre : r = 2 * (k - iabs m) + 1 := by omega
    have hrm : r % 2 = 1 := by omega
    have hrd : r / 2 = k - iabs m := by omega
    rw [hrm, hrd]
    have : iabs m = -m := by unfold iabs; split <;> omega
    simp only [Prod.mk.injEq]
    constructor
    · omega
    · have : (2 * k - (k + (k - iabs m))) * (1 - 2 * 1) = -iabs m := by ring
      rw [this]; omega

/-! ## Noll -/

theorem noll_decomp (j : Int) (hj : 1 ≤ j) :
    ∃ n p : Int, 0 ≤ p ∧ p ≤ n ∧ j = tri n + p + 1 ∧ (n : Int) = triRoot (j - 1).toNat ∧
      nollToNm j = (n, if j % 2 = 1 then -(if n % 2 = 0 then 2 * ((p + 1) / 2) else 2 * (p / 2) + 1)
                       else (if n % 2 = 0 then 2 * ((p + 1) / 2) else 2 * (p / 2) + 1)) := by
  obtain ⟨b1, b2⟩ := triRoot_bounds (j - 1).toNat
  have e : (((j - 1).toNat : Nat) : Int) = j - 1 := Int.toNat_of_nonneg (by omega)
  rw [e] at b1 b2
  refine ⟨triRoot (j - 1).toNat, j - 1 - tri (triRoot (j - 1).toNat), by omega, by omega, by omega, rfl, ?_⟩
  rfl

theorem noll_valid (j : Int) (hj : 1 ≤ j) : Valid (nollToNm j).1 (nollToNm j).2 := by
  obtain ⟨n, p, h0, h1, _, _, e⟩ := noll_decomp j hj
  rw [e]; simp only [Valid, iabs]
  constructor <;> split <;> split <;> split <;> omega

theorem noll_left_inv (j : Int) (hj : 1 ≤ j) : nmToNoll (nollToNm j).1 (nollToNm j).2 = j := by
  obtain ⟨n, p, h0, h1, hj', _, e⟩ := noll_decomp j hj
  rw [e]
  unfold nmToNoll iabs
  simp only
  generalize tri n = t at *
  split_ifs <;> omega

theorem noll_right_inv (n m : Int) (h : Valid n m) :
    1 ≤ nmToNoll n m ∧ nollToNm (nmToNoll n m) = (n, m) := by
  simp only [Valid] at h
  obtain ⟨h1, h2⟩ := h
  have ha0 : 0 ≤ iabs m := by unfold iabs; split <;> omega
  have hn : 0 ≤ n := by omega
  have ht := tri_nonneg n hn
  -- position inside the row
  obtain ⟨p, hp0, hp1, hj⟩ : ∃ p : Int, 0 ≤ p ∧ p ≤ n ∧ nmToNoll n m = tri n + p + 1 := by
    refine ⟨nmToNoll n m - tri n - 1, ?_, ?_, by ring⟩
    · unfold nmToNoll iabs; simp only; split <;> (try split) <;> (try split) <;> omega
    · unfold nmToNoll; simp only
      have : m ≠ 0 → 1 ≤ iabs m := by intro hm; unfold iabs; split <;> omega
      split
      · omega
      · rename_i hm; have := this hm; split <;> omega
  have hj1 : 1 ≤ nmToNoll n m := by omega
  refine ⟨hj1, ?_⟩
  have hr : (triRoot (nmToNoll n m - 1).toNat : Int) = n := by
    apply triRoot_eq _ n hn
    · rw [Int.toNat_of_nonneg (by omega)]; omega
    · rw [Int.toNat_of_nonneg (by omega)]; omega
  unfold nollToNm
  simp only [hr, Prod.mk.injEq, true_and]
  have hp : nmToNoll n m - 1 - tri n = p := by omega
  rw [hp]
  -- now everything is linear in (tri n, p, m, n)
  revert hj
  unfold nmToNoll
  simp only
  unfold iabs at *
  generalize tri n = t at *
  intro hj
  split at hj <;> (try split at hj) <;> (try split at hj) <;> split <;> split <;> (try split at h1) <;> omega

/-- radial order never decreases along the Noll sequence -/
theorem noll_n_mono (j j' : Int) (h : j ≤ j') : (nollToNm j).1 ≤ (nollToNm j').1 := by
  unfold nollToNm
  simp only
  have : (j - 1).toNat ≤ (j' - 1).toNat := by omega
  exact_mod_cast triRoot_mono this

/-- even Noll index ↔ cosine term (`m > 0`), odd ↔ sine (`m < 0`), for every term with `m ≠ 0` -/
theorem noll_parity (j : Int) (hj : 1 ≤ j) (hm : (nollToNm j).2 ≠ 0) : (j % 2 = 0 ↔ 0 < (nollToNm j).2) := by
  obtain ⟨n, p, h0, h1, _, _, e⟩ := noll_decomp j hj
  rw [e] at hm ⊢
  simp only at hm ⊢
  split_ifs at hm ⊢ <;> omega

/-! ## XY -/

theorem xy_decomp (j : Int) (hj : 1 ≤ j) :
    ∃ d p : Int, 0 ≤ p ∧ p ≤ d ∧ j = tri d + p + 1 ∧ (d : Int) = triRoot (j - 1).toNat ∧ xyJToMn j = (d - p, p) := by
  obtain ⟨b1, b2⟩ := triRoot_bounds (j - 1).toNat
  have e : (((j - 1).toNat : Nat) : Int) = j - 1 := Int.toNat_of_nonneg (by omega)
  rw [e] at b1 b2
  exact ⟨triRoot (j - 1).toNat, j - 1 - tri (triRoot (j - 1).toNat), by omega, by omega, by omega, rfl, rfl⟩

theorem xy_valid (j : Int) (hj : 1 ≤ j) : 0 ≤ (xyJToMn j).1 ∧ 0 ≤ (xyJToMn j).2 := by
  obtain ⟨d, p, h0, h1, _, _, e⟩ := xy_decomp j hj
  rw [e]; constructor <;> simp only <;> omega

theorem xy_left_inv (j : Int) (hj : 1 ≤ j) : mnToXyJ (xyJToMn j).1 (xyJToMn j).2 = j := by
  obtain ⟨d, p, h0, h1, hj', _, e⟩ := xy_decomp j hj
  rw [e]; unfold mnToXyJ; simp only
  have : d - p + p = d := by ring
  rw [this]; omega

theorem xy_right_inv (a b : Int) (ha : 0 ≤ a) (hb : 0 ≤ b) :
    1 ≤ mnToXyJ a b ∧ xyJToMn (mnToXyJ a b) = (a, b) := by
  have ht := tri_nonneg (a + b) (by omega)
  have hj1 : 1 ≤ mnToXyJ a b := by unfold mnToXyJ; omega
  refine ⟨hj1, ?_⟩
  have hr : (triRoot (mnToXyJ a b - 1).toNat : Int) = a + b := by
    apply triRoot_eq _ (a + b) (by omega)
    · rw [Int.toNat_of_nonneg (by omega)]; unfold mnToXyJ; omega
    · rw [Int.toNat_of_nonneg (by omega)]; unfold mnToXyJ; omega
  unfold xyJToMn
  simp only [hr, Prod.mk.injEq]
  unfold mnToXyJ
  constructor <;> omega

end Model.C11

namespace Model.C11

theorem xy_small : xyJToMn 1 = (0, 0) ∧ xyJToMn 2 = (1, 0) ∧ xyJToMn 3 = (0, 1) := by
  have a := (xy_right_inv 0 0 (by decide) (by decide)).2
  have b := (xy_right_inv 1 0 (by decide) (by decide)).2
  have c := (xy_right_inv 0 1 (by decide) (by decide)).2
  have ea : mnToXyJ 0 0 = 1 := by decide
  have eb : mnToXyJ 1 0 = 2 := by decide
  have ec : mnToXyJ 0 1 = 3 := by decide
  rw [ea] at a; rw [eb] at b; rw [ec] at c
  exact ⟨a, b, c⟩

end Model.C11

namespace Model.C11

/-- the Fringe group: `n + |m| = 2 (⌈√j⌉ - 1)` -/
theorem fringe_group (j : Int) (hj : 1 ≤ j) :
    (fringeToNm j).1 + |(fringeToNm j).2| = 2 * (pyCeilSqrt j - 1) := by
  have key : ∀ k r : Int, 0 ≤ r → r ≤ 2 * k →
      (k + r / 2) + |(2 * k - (k + r / 2)) * (1 - 2 * (r % 2))| = 2 * k := by
    intro k r h0 h1
    rcases Int.emod_two_eq_zero_or_one r with h | h
    · rw [h]
      have : (2 * k - (k + r / 2)) * (1 - 2 * 0) = k - r / 2 := by ring
      rw [this, abs_of_nonneg (by omega)]; omega
    · rw [h]
      have : (2 * k - (k + r / 2)) * (1 - 2 * 1) = -(k - r / 2) := by ring
      rw [this, abs_neg, abs_of_nonneg (by omega)]; omega
  obtain ⟨k, hk, hlo, hhi⟩ := ceilSqrt_spec j.toNat (by omega)
  have e : ((j.toNat : Nat) : Int) = j := Int.toNat_of_nonneg (by omega)
  have hlo' : (k : Int) * k < j := by rw [← e]; exact_mod_cast hlo
  have hhi' : j ≤ ((k : Int) + 1) * (k + 1) := by rw [← e]; exact_mod_cast hhi
  have hc : pyCeilSqrt j - 1 = k := by unfold pyCeilSqrt; rw [hk]; push_cast; ring
  unfold fringeToNm
  simp only [hc]
  exact key k (j - k * k - 1) (by omega) (by nlinarith)

end Model.C11
