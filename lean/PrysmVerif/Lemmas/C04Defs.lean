import PrysmVerif.Generated.C04
import Mathlib.Algebra.BigOperators.Ring.Finset
import Mathlib.Algebra.Order.BigOperators.Group.Finset
import Mathlib.Order.Interval.Finset.Basic
import Mathlib.Data.Int.Interval
import Mathlib.Data.Finset.Max
import Mathlib.Algebra.Order.Field.Rat
import Mathlib.Tactic.Ring
import Mathlib.Tactic.FieldSimp
import Mathlib.Order.Interval.Finset.Nat
import Mathlib.Algebra.BigOperators.Intervals
/-!
# C04 — specification-level definitions used by `Props/C04.lean`

* `IsArgminAbs`  : what `np.argmin(abs(v))` promises (an in-range index of a minimal `|v k|`)
* `comY`, `comX` : first moment / total of a 2-D array (`scipy.ndimage.center_of_mass`)
* `padded`, `com_padded` : a zero-padded copy of an array and what padding does to the centre of mass
* `pad2Src`, `crop2Src` : the 2-D index maps of `out[slcs] = array` / `img[slcs]` with one generated slice per axis
-/
namespace C04
open Generated.C04 Finset

/-- specification of `am v len = np.argmin(abs(v))` for a vector of length `len ≥ 1` -/
def IsArgminAbs (am : (Int → Rat) → Int → Int) : Prop :=
  ∀ (v : Int → Rat) (len : Int), 1 ≤ len →
    0 ≤ am v len ∧ am v len < len ∧ ∀ k, 0 ≤ k → k < len → |v (am v len)| ≤ |v k|

/-- the specification is satisfiable (non-vacuity of every theorem that assumes it) -/
theorem isArgminAbs_exists : ∃ am, IsArgminAbs am := by
  classical
  have h : ∀ (v : Int → Rat) (len : Int), ∃ a : Int, 1 ≤ len →
      (0 ≤ a ∧ a < len ∧ ∀ k, 0 ≤ k → k < len → |v a| ≤ |v k|) := by
    intro v len
    by_cases hl : 1 ≤ len
    · obtain ⟨a, ha, hmin⟩ := Finset.exists_min_image (Finset.Ico (0 : Int) len) (fun k => |v k|)
        ⟨0, Finset.mem_Ico.2 ⟨le_refl _, by omega⟩⟩
      exact ⟨a, fun _ => ⟨(Finset.mem_Ico.1 ha).1, (Finset.mem_Ico.1 ha).2,
        fun k h0 h1 => hmin k (Finset.mem_Ico.2 ⟨h0, h1⟩)⟩⟩
    · exact ⟨0, fun h => absurd h hl⟩
  choose f hf using h
  exact ⟨f, fun v len hl => hf v len hl⟩

/-- centre of mass along axis 0 (rows) / axis 1 (columns) of an `m × n` array -/
noncomputable def comY (d : ℕ → ℕ → ℚ) (m n : ℕ) : ℚ :=
  (∑ i ∈ range m, ∑ j ∈ range n, (i : ℚ) * d i j) / (∑ i ∈ range m, ∑ j ∈ range n, d i j)
noncomputable def comX (d : ℕ → ℕ → ℚ) (m n : ℕ) : ℚ :=
  (∑ i ∈ range m, ∑ j ∈ range n, (j : ℚ) * d i j) / (∑ i ∈ range m, ∑ j ∈ range n, d i j)

/-- a point source of strength `c` at row `p`, column `q` -/
def delta (p q : ℕ) (c : ℚ) : ℕ → ℕ → ℚ := fun i j => if i = p ∧ j = q then c else 0

theorem sum_delta (w : ℕ → ℕ → ℚ) (m n p q : ℕ) (hp : p < m) (hq : q < n) (c : ℚ) :
    ∑ i ∈ range m, ∑ j ∈ range n, w i j * delta p q c i j = w p q * c := by
  rw [Finset.sum_eq_single p]
  · rw [Finset.sum_eq_single q]
    · simp [delta]
    · intro j _ hj; simp [delta, hj]
    · intro h; exact absurd (Finset.mem_range.2 hq) h
  · intro i _ hi
    apply Finset.sum_eq_zero
    intro j _; simp [delta, hi]
  · intro h; exact absurd (Finset.mem_range.2 hp) h

/-- the centre of mass of a point source is its position, in (row, column) order -/
theorem com_delta (m n p q : ℕ) (hp : p < m) (hq : q < n) (c : ℚ) (hc : c ≠ 0) :
    comY (delta p q c) m n = p ∧ comX (delta p q c) m n = q := by
  have h1 := sum_delta (fun _ _ => 1) m n p q hp hq c
  have hy := sum_delta (fun i _ => (i : ℚ)) m n p q hp hq c
  have hx := sum_delta (fun _ j => (j : ℚ)) m n p q hp hq c
  simp only [one_mul] at h1
  unfold comY comX
  rw [h1, hy, hx]
  constructor <;> field_simp

/-- zero-padded copy of an `m × n` array `d` with its first sample at `(lo0, lo1)` -/
def padded (d : ℕ → ℕ → ℚ) (m n lo0 lo1 : ℕ) : ℕ → ℕ → ℚ := fun i j =>
  if lo0 ≤ i ∧ i < lo0 + m ∧ lo1 ≤ j ∧ j < lo1 + n then d (i - lo0) (j - lo1) else 0

/-- a sum over `range M` of a function supported on the block `[lo, lo + m)` is the sum over the block -/
theorem sum_shift_block (f : ℕ → ℚ) (g : ℕ → ℚ) (M m lo : ℕ) (h : lo + m ≤ M)
    (hin : ∀ i, i < m → f (lo + i) = g i) (hout : ∀ i, i < M → ¬ (lo ≤ i ∧ i < lo + m) → f i = 0) :
    ∑ i ∈ range M, f i = ∑ i ∈ range m, g i := by
  have hsub : Ico lo (lo + m) ⊆ range M := by
    intro i hi
    rw [mem_Ico] at hi
    exact mem_range.2 (by omega)
  rw [← Finset.sum_subset hsub]
  · rw [Finset.sum_Ico_eq_sum_range]
    simp only [Nat.add_sub_cancel_left]
    exact Finset.sum_congr rfl (fun i hi => hin i (mem_range.1 hi))
  · intro i hi hni
    exact hout i (mem_range.1 hi) (by rw [mem_Ico] at hni; exact hni)

/-- weighted 2-D sum of a zero-padded array = the same sum over the original samples at their new positions -/
theorem sum_padded (w : ℕ → ℕ → ℚ) (d : ℕ → ℕ → ℚ) (m n M N lo0 lo1 : ℕ) (h0 : lo0 + m ≤ M) (h1 : lo1 + n ≤ N) :
    ∑ i ∈ range M, ∑ j ∈ range N, w i j * padded d m n lo0 lo1 i j =
      ∑ i ∈ range m, ∑ j ∈ range n, w (lo0 + i) (lo1 + j) * d i j := by
  apply sum_shift_block _ _ M m lo0 h0
  · intro i hi
    apply sum_shift_block _ _ N n lo1 h1
    · intro j hj
      have : lo0 ≤ lo0 + i ∧ lo0 + i < lo0 + m ∧ lo1 ≤ lo1 + j ∧ lo1 + j < lo1 + n := by omega
      simp only [padded, if_pos this, Nat.add_sub_cancel_left]
    · intro j _ hn
      have : ¬ (lo0 ≤ lo0 + i ∧ lo0 + i < lo0 + m ∧ lo1 ≤ j ∧ j < lo1 + n) := by omega
      simp only [padded, if_neg this, mul_zero]
  · intro i _ hn
    apply Finset.sum_eq_zero
    intro j _
    have : ¬ (lo0 ≤ i ∧ i < lo0 + m ∧ lo1 ≤ j ∧ j < lo1 + n) := by omega
    simp only [padded, if_neg this, mul_zero]

/-- zero padding moves the centre of mass by the pad offsets -/
theorem com_padded (d : ℕ → ℕ → ℚ) (m n M N lo0 lo1 : ℕ) (h0 : lo0 + m ≤ M) (h1 : lo1 + n ≤ N)
    (ht : ∑ i ∈ range m, ∑ j ∈ range n, d i j ≠ 0) :
    comY (padded d m n lo0 lo1) M N = comY d m n + lo0 ∧ comX (padded d m n lo0 lo1) M N = comX d m n + lo1 := by
  have e1 := sum_padded (fun _ _ => 1) d m n M N lo0 lo1 h0 h1
  have ey := sum_padded (fun i _ => (i : ℚ)) d m n M N lo0 lo1 h0 h1
  have ex := sum_padded (fun _ j => (j : ℚ)) d m n M N lo0 lo1 h0 h1
  simp only [one_mul] at e1
  unfold comY comX
  rw [e1, ey, ex]
  constructor
  · rw [div_add' _ _ _ ht]
    congr 1
    rw [Finset.mul_sum, ← Finset.sum_add_distrib]
    apply Finset.sum_congr rfl; intro i _
    rw [Finset.mul_sum, ← Finset.sum_add_distrib]
    apply Finset.sum_congr rfl; intro j _
    push_cast; ring
  · rw [div_add' _ _ _ ht]
    congr 1
    rw [Finset.mul_sum, ← Finset.sum_add_distrib]
    apply Finset.sum_congr rfl; intro i _
    rw [Finset.mul_sum, ← Finset.sum_add_distrib]
    apply Finset.sum_congr rfl; intro j _
    push_cast; ring
/-- constant-mode `pad2d`, 2-D: output sample `(i, j)` is input sample `(i - lo₀, j - lo₁)` inside the written
block `[lo₀, hi₀) × [lo₁, hi₁)` (one generated slice per axis, axis `k` built from `(in_shape[k], out_shape[k])`) -/
def pad2Src (n0 n1 N0 N1 i j : Int) : Option (Int × Int) :=
  if padSliceLo n0 N0 ≤ i ∧ i < padSliceHi n0 N0 ∧ padSliceLo n1 N1 ≤ j ∧ j < padSliceHi n1 N1
  then some (i - padSliceLo n0 N0, j - padSliceLo n1 N1) else none

/-- `crop_center`, 2-D: output sample `(i, j)` is input sample `(i + lo₀, j + lo₁)` -/
def crop2Src (n0 n1 N0 N1 i j : Int) : Int × Int := (i + cropLo n0 N0, j + cropLo n1 N1)

end C04
