import PrysmVerif.Lemmas.C09Jac
import PrysmVerif.Lemmas.C09Fam
/-!
# C09 — the sequence forms (`hermite_He_der_seq`, `hermite_H_der_seq`, `jacobi_der_seq`): every row of the sweep, as the source runs
it (explicit low orders, then one loop that carries two polynomials), is the closed form of the single-order routine
-/
set_option linter.unusedTactic false
set_option linter.unreachableTactic false
set_option linter.unusedSimpArgs false
namespace C10L
open Model.C10 Model.C09
set_option linter.unusedSectionVars false

section Seq
variable {F : Type} [Field F]

theorem heSeqState_eq (x : F) : ∀ k, heSeqState x k = (heFam.p x (k+1), heFam.p x (k+2)) := by
  intro k
  induction k with
  | zero =>
    have e1 : (heFam (K := F)).p x 1 = x := by simp [p_one]
    have e2 : (heFam (K := F)).p x 2 = x * x - 1 := by
      rw [show (2 : ℕ) = 0+2 from rfl, p_succ_succ]; simp [e1, p_zero]
    simp only [heSeqState, ofInt_eq]
    rw [e1, e2]; push_cast; rfl
  | succ k ih =>
    simp only [heSeqState, ih]
    rw [p_succ_succ (heFam (K := F)) x (k+1)]
    simp only [he_a, he_b, he_c, he_e, ofInt_eq]
    refine Prod.ext rfl ?_
    simp only []; push_cast; ring

/-- **`hermite_He_der_seq`**: every row of the sweep is the closed form `n He_{n-1}` of `hermite_He_der`, every order -/
theorem heDerSeqRow_eq (x : F) (n : ℕ) : heDerSeqRow n x = heDer n x := by
  match n with
  | 0 => rfl
  | 1 => simp [heDerSeqRow, heDer, p_zero]
  | 2 => simp [heDerSeqRow, heDer, p_one]
  | k+3 =>
    simp only [heDerSeqRow, heDer, heSeqState_eq, ofInt_eq]; push_cast; ring

theorem hSeqState_eq (x : F) : ∀ k, hSeqState x k = (hFam.p x (k+1), hFam.p x (k+2)) := by
  intro k
  induction k with
  | zero =>
    have e1 : (hFam (K := F)).p x 1 = 2 * x := by simp [p_one]
    have e2 : (hFam (K := F)).p x (0+2) = 4 * (x * x) - 2 := by
      rw [p_succ_succ]; simp [e1, p_zero]; ring
    simp only [hSeqState, ofInt_eq]
    rw [e1, e2]; push_cast; rfl
  | succ k ih =>
    simp only [hSeqState, ih]
    rw [p_succ_succ (hFam (K := F)) x (k+1)]
    simp only [h_a, h_b, h_c, h_e, ofInt_eq]
    refine Prod.ext rfl ?_
    simp only []; push_cast; ring

/-- **`hermite_H_der_seq`**: every row of the sweep is the closed form `2n H_{n-1}` of `hermite_H_der`, every order -/
theorem hDerSeqRow_eq (x : F) (n : ℕ) : hDerSeqRow n x = hDer n x := by
  match n with
  | 0 => rfl
  | 1 => simp [hDerSeqRow, hDer, p_zero]
  | 2 => simp [hDerSeqRow, hDer, p_one]
  | k+3 =>
    simp only [hDerSeqRow, hDer, hSeqState_eq, ofInt_eq]; push_cast; ring

variable [DecidableEq F]

theorem jacSeqState_eq (al be x : F) : ∀ k, jacSeqState al be x k = jacobiPair (al + 1) (be + 1) x (k+1) := by
  intro k
  induction k with
  | zero =>
    simp only [jacSeqState, jacobiPair, ofInt_eq]
    refine Prod.ext ?_ ?_ <;> first | rfl | (simp only []; push_cast; ring) | (simp only []; ring)
  | succ k ih =>
    simp only [jacSeqState, ih, ofInt_eq]
    rw [show k + 1 + 1 = (k+1) + 1 from rfl]
    conv_rhs => rw [jacobiPair]
    refine Prod.ext ?_ ?_ <;> first | rfl | (simp only []; push_cast; ring) | (simp only []; ring)

/-- **`jacobi_der_seq`**: every row of the sweep is the closed form `½(n+α+β+1) P_{n-1}^{(α+1,β+1)}` of `jacobi_der`, every order,
all shapes -/
theorem jacobiDerSeqRow_eq (al be x : F) (n : ℕ) : jacobiDerSeqRow n al be x = jacobiDer n al be x := by
  match n with
  | 0 => rfl
  | 1 => simp [jacobiDerSeqRow, jacobiDer, jacobi, jacobiPair]
  | 2 =>
    simp only [jacobiDerSeqRow, jacobiDer, jacobi, jacSeqState_eq, ofInt_eq]
    simp only [jacobiPair]; push_cast; ring
  | k+3 =>
    simp only [jacobiDerSeqRow, jacobiDer, jacobi, jacSeqState_eq, ofInt_eq]
    rw [show k + 2 = (k+1) + 1 from rfl]
    conv_rhs => rw [jacobiPair]
    simp only []; push_cast; ring
end Seq
end C10L
