import PrysmVerif.Lemmas.C15Grid
import Mathlib.Analysis.SpecialFunctions.Trigonometric.Inverse
import Mathlib.Analysis.SpecialFunctions.Trigonometric.Bounds
import Mathlib.Analysis.SpecialFunctions.Pow.Real
import Mathlib.Tactic.FieldSimp
import Mathlib.Tactic.Linarith
/-!
# C15 — the diffraction-limited MTF of a circular pupil over ℝ (helper lemmas)

`(2/π)(arccos ν − ν √(1−ν²))` with the real `Real.arccos`, `Real.sqrt`, `π`: 1 at ν = 0, 0 at ν = 1, inside `[0, 1]` on
`[0, 1]` (the upper bound for every ν ≥ 0), and antitone on `[0, 1]`.
-/
set_option linter.unusedTactic false
set_option linter.unreachableTactic false
set_option linter.unusedSimpArgs false
set_option linter.unusedVariables false

namespace C15L
open Model.C15

/-- the core of the diffraction-limited MTF over ℝ -/
noncomputable def coreR (ν : ℝ) : ℝ := (2 / Real.pi) * (Real.arccos ν - ν * Real.sqrt (1 - ν * ν))

theorem coreR_zero : coreR 0 = 1 := by
  have hpi : Real.pi ≠ 0 := Real.pi_ne_zero
  simp only [coreR, Real.arccos_zero, zero_mul, sub_zero]
  field_simp

theorem coreR_one : coreR 1 = 0 := by
  simp [coreR, Real.arccos_one]

theorem coreR_le_one {ν : ℝ} (h0 : 0 ≤ ν) : coreR ν ≤ 1 := by
  have hpi : 0 < Real.pi := Real.pi_pos
  have h1 : Real.arccos ν ≤ Real.pi / 2 := Real.arccos_le_pi_div_two.2 h0
  have h2 : 0 ≤ ν * Real.sqrt (1 - ν * ν) := mul_nonneg h0 (Real.sqrt_nonneg _)
  have h3 : Real.arccos ν - ν * Real.sqrt (1 - ν * ν) ≤ Real.pi / 2 := by linarith
  calc coreR ν = (2 / Real.pi) * (Real.arccos ν - ν * Real.sqrt (1 - ν * ν)) := rfl
    _ ≤ (2 / Real.pi) * (Real.pi / 2) := mul_le_mul_of_nonneg_left h3 (by positivity)
    _ = 1 := by field_simp

theorem coreR_nonneg {ν : ℝ} (h0 : 0 ≤ ν) (h1 : ν ≤ 1) : 0 ≤ coreR ν := by
  have hpi : 0 < Real.pi := Real.pi_pos
  have hθ0 : 0 ≤ Real.arccos ν := Real.arccos_nonneg ν
  have hθπ : Real.arccos ν ≤ Real.pi := Real.arccos_le_pi ν
  have hcos : Real.cos (Real.arccos ν) = ν := Real.cos_arccos (by linarith) h1
  have hsin : Real.sin (Real.arccos ν) = Real.sqrt (1 - ν * ν) := by rw [Real.sin_arccos, sq]
  have hs0 : 0 ≤ Real.sin (Real.arccos ν) := Real.sin_nonneg_of_nonneg_of_le_pi hθ0 hθπ
  have hsle : Real.sin (Real.arccos ν) ≤ Real.arccos ν := Real.sin_le hθ0
  have hprod : ν * Real.sqrt (1 - ν * ν) ≤ Real.arccos ν := by
    rw [← hsin]
    calc ν * Real.sin (Real.arccos ν) ≤ 1 * Real.sin (Real.arccos ν) := mul_le_mul_of_nonneg_right h1 hs0
      _ = Real.sin (Real.arccos ν) := one_mul _
      _ ≤ Real.arccos ν := hsle
  have : 0 ≤ Real.arccos ν - ν * Real.sqrt (1 - ν * ν) := by linarith
  exact mul_nonneg (by positivity) this

/-- the modelled core, instantiated with the real functions, is `coreR` -/
theorem difflimCore_real (ν : ℝ) : difflimCore Real.arccos Real.sqrt Real.pi ν = coreR ν := by
  simp [difflimCore, coreR, Num.ofInt]

/-- the modelled normalised frequency over ℝ lies in `[0, 1]`, for EVERY frequency, wavelength and f-number -/
theorem difflimNu_range (f w F : ℝ) : 0 ≤ difflimNu (fun x : ℝ => |x|) f w F ∧ difflimNu (fun x : ℝ => |x|) f w F ≤ 1 := by
  simp only [difflimNu, Num.ofInt]
  split_ifs with h
  · norm_num
  · push_cast at h ⊢
    exact ⟨abs_nonneg _, by simpa using not_lt.1 h⟩

theorem difflimNu_zero (w F : ℝ) : difflimNu (fun x : ℝ => |x|) 0 w F = 0 := by
  simp [difflimNu, Num.ofInt]

theorem difflimNu_neg (f w F : ℝ) : difflimNu (fun x : ℝ => |x|) (-f) w F = difflimNu (fun x : ℝ => |x|) f w F := by
  simp only [difflimNu, neg_div, abs_neg]

/-- at and beyond the cut-off `1/(λ/1000·F#)` the normalised frequency is 1 -/
theorem difflimNu_cutoff (f w F : ℝ) (h : 1 ≤ |f / (1 / (w / 1000 * F))|) : difflimNu (fun x : ℝ => |x|) f w F = 1 := by
  simp only [difflimNu, Num.ofInt]
  push_cast
  split_ifs with h2
  · rfl
  · exact le_antisymm (not_lt.1 h2) h


/-- the core never increases on `[0, 1]`: with `x = cos θ` it is `(2/π)(θ − sin θ cos θ)`, and
`sin a cos a − sin b cos b = sin (a−b) cos (a+b) ≤ a − b` -/
theorem coreR_antitone {x y : ℝ} (hx : 0 ≤ x) (hxy : x ≤ y) (hy : y ≤ 1) : coreR y ≤ coreR x := by
  have hpi : 0 < Real.pi := Real.pi_pos
  set a := Real.arccos x with ha
  set b := Real.arccos y with hb
  have hba : b ≤ a := Real.arccos_le_arccos hxy
  have hb0 : 0 ≤ b := Real.arccos_nonneg y
  have haπ : a ≤ Real.pi := Real.arccos_le_pi x
  have hcx : Real.cos a = x := Real.cos_arccos (by linarith) (by linarith)
  have hcy : Real.cos b = y := Real.cos_arccos (by linarith) hy
  have hsx : Real.sin a = Real.sqrt (1 - x * x) := by rw [ha, Real.sin_arccos, sq]
  have hsy : Real.sin b = Real.sqrt (1 - y * y) := by rw [hb, Real.sin_arccos, sq]
  have e1 := Real.sin_sq_add_cos_sq a
  have e2 := Real.sin_sq_add_cos_sq b
  have key : Real.sin a * Real.cos a - Real.sin b * Real.cos b = Real.sin (a - b) * Real.cos (a + b) := by
    rw [Real.sin_sub, Real.cos_add]
    linear_combination (-(Real.sin a * Real.cos a)) * e2 + (Real.sin b * Real.cos b) * e1
  have hs0 : 0 ≤ Real.sin (a - b) := Real.sin_nonneg_of_nonneg_of_le_pi (by linarith) (by linarith)
  have hsle : Real.sin (a - b) ≤ a - b := Real.sin_le (by linarith)
  have hprod : Real.sin (a - b) * Real.cos (a + b) ≤ a - b := by
    calc Real.sin (a - b) * Real.cos (a + b) ≤ Real.sin (a - b) * 1 :=
          mul_le_mul_of_nonneg_left (Real.cos_le_one _) hs0
      _ ≤ a - b := by linarith
  have hmain : b - y * Real.sqrt (1 - y * y) ≤ a - x * Real.sqrt (1 - x * x) := by
    rw [← hsx, ← hsy, ← hcx, ← hcy]
    nlinarith [key, hprod]
  unfold coreR
  exact mul_le_mul_of_nonneg_left hmain (by positivity)

/-- the clamped normalised frequency never decreases with `|f|` -/
theorem difflimNu_mono (f₁ f₂ w F : ℝ) (h : |f₁| ≤ |f₂|) :
    difflimNu (fun x : ℝ => |x|) f₁ w F ≤ difflimNu (fun x : ℝ => |x|) f₂ w F := by
  simp only [difflimNu, Num.ofInt]
  push_cast
  have hd : |f₁ / (1 / (w / 1000 * F))| ≤ |f₂ / (1 / (w / 1000 * F))| := by
    rw [abs_div f₁, abs_div f₂]; exact div_le_div_of_nonneg_right h (abs_nonneg _)
  split_ifs with h1 h2 h2
  · exact le_refl _
  · exact absurd (lt_of_lt_of_le h1 hd) h2
  · exact le_of_not_gt h1
  · exact hd
end C15L
