import PrysmVerif.Lemmas.PyArith
import PrysmVerif.PyPrelude
import Mathlib.Tactic.Ring
import Mathlib.Tactic.Linarith
import Mathlib.Algebra.Order.Floor.Ring
import Mathlib.Data.Rat.Floor
/-!
# C04 — normalising lemmas for integer expressions that the translator emits in rational context

`s // 2` inside a float-valued expression is emitted as `Rat.floor (s / 2)`, `int(x)` as `pyTruncRat x`; these lemmas
bring both back to the integer forms the theorems of `Props/C04.lean` are stated with, so that equivalent spellings
of the source (`fftrange(s)`, `arange(s) - s//2`, `arange(-(s//2), s - s//2)`, `int` / `math.floor`) all check.
-/
namespace C04

/-- `s // 2` written in rational context is the integer `s / 2` -/
theorem rat_floor_half (s : Int) : Rat.floor (((s : Int) : Rat) / (2 : Rat)) = s / 2 := by
  rw [Rat.floor_eq_intFloor]
  have h : ((s : Rat) / 2) = ((s : Rat) / ((2 : ℕ) : Rat)) := by norm_num
  rw [h, Rat.floor_intCast_div_natCast]; norm_num

/-- `int(x)` of a non-negative rational is its floor -/
theorem pyTruncRat_nonneg (x : Rat) (h : 0 ≤ x) : pyTruncRat x = ((⌊x⌋ : Int) : Rat) := by
  unfold pyTruncRat
  rw [if_neg (not_lt.2 h), Rat.floor_eq_intFloor]

end C04
