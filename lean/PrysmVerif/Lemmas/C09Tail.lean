import PrysmVerif.Lemmas.C10Base
/-!
# C09 — why the derivative routines may seed row `jj` at index `M - jj`

In the full table (recurrence applied at every index) row `j` vanishes at every index `> M - j`, and at index
`M - j` the recurrence collapses to the seed `j · a_{M-j} · α^{(j-1)}_{M-j+1}`.  Consequently any downward sweep
that starts at or above `M - j - 1` (and does not read beyond index `M`) produces the same row.
-/
set_option linter.unusedSectionVars false
namespace C10L
open Model.C10 Model.C09
variable {R : Type} [CommRing R] [Div R]

theorem nth_of_length_le (l : List R) (i : Nat) (h : l.length ≤ i) : nth l i = 0 := by
  induction l generalizing i with
  | nil => simp
  | cons a t ih =>
    cases i with
    | zero => simp at h
    | succ k => simp only [nth_succ]; exact ih k (by simpa using h)

theorem nth_tail (l : List R) (i : Nat) : nth l.tail i = nth l (i+1) := by
  cases l <;> simp

/-- if the previous row vanishes from index `t` on, the new row vanishes from index `t - 1` on -/
theorem derRow_zero_tail (G : Fam R) (x : R) (j : Nat) : ∀ (prev : List R) (k t : Nat),
    (∀ i, t ≤ i → nth prev i = 0) → ∀ i, t ≤ i + 1 → nth (derRow G x j k prev) i = 0 := by
  intro prev
  induction prev with
  | nil => intro k t _ i _; simp [derRow]
  | cons p prest ih =>
    intro k t hprev i hi
    have hprest : ∀ i, t - 1 ≤ i → nth prest i = 0 := by
      intro i' h'
      have := hprev (i'+1) (by omega)
      simpa using this
    have hr := ih (k+1) (t-1) hprest
    simp only [derRow]
    cases i with
    | zero =>
      have h1 : hd prest = 0 := by rw [← nth_zero_eq_hd]; exact hprest 0 (by omega)
      have h2 : hd (derRow G x j (k+1) prest) = 0 := by rw [← nth_zero_eq_hd]; exact hr 0 (by omega)
      have h3 : hd (derRow G x j (k+1) prest).tail = 0 := by
        rw [← nth_zero_eq_hd, nth_tail]; exact hr 1 (by omega)
      simp [h1, h2, h3]
    | succ i' => simp only [nth_succ]; exact hr i' (by omega)

/-- **row `j` of the full table vanishes above index `M - j`** (`M + 1 = len s`) -/
theorem derTable_zero_tail (G : Fam R) (x : R) (s : List R) : ∀ (j i : Nat), s.length ≤ i + j →
    nth (derTable G x s j) i = 0 := by
  intro j
  induction j with
  | zero => intro i h; exact nth_of_length_le _ _ (by simpa [derTable, alphas_length] using h)
  | succ k ih =>
    intro i h
    rw [derTable]
    exact derRow_zero_tail G x (k+1) (derTable G x s k) 0 (s.length - k) (fun i' h' => ih i' (by omega)) i (by omega)

/-- entry formula of a row: the recurrence the inner loops apply -/
theorem nth_derRow (G : Fam R) (x : R) (j : Nat) : ∀ (prev : List R) (k i : Nat), i < prev.length →
    nth (derRow G x j k prev) i =
      (j : R) * G.a (k+i) * nth prev (i+1) + (G.a (k+i) * x + G.b (k+i)) * nth (derRow G x j k prev) (i+1)
        - G.c (k+i+1) * nth (derRow G x j k prev) (i+2) := by
  intro prev
  induction prev with
  | nil => intro k i h; simp at h
  | cons p prest ih =>
    intro k i h
    cases i with
    | zero =>
      simp only [derRow, nth_zero, nth_succ, Nat.add_zero, ofInt_eq]
      rw [nth_zero_eq_hd, nth_zero_eq_hd, nth_one_eq]
      push_cast; ring
    | succ i' =>
      have := ih (k+1) i' (by simpa using h)
      simp only [derRow, nth_succ]
      rw [this]
      have e1 : k + 1 + i' = k + (i' + 1) := by omega
      rw [e1]

/-- **the seed is the recurrence**: at the top non-zero index of row `j+1` the recurrence reduces to
`(j+1) · a_i · α^{(j)}_{i+1}` — exactly what the three derivative routines write before their inner loop -/
theorem derTable_seed (G : Fam R) (x : R) (s : List R) (j i : Nat) (h : s.length = i + j + 2) :
    nth (derTable G x s (j+1)) i = ((j : R) + 1) * G.a i * nth (derTable G x s j) (i+1) := by
  have hlen : (derTable G x s j).length = s.length := by
    have : ∀ (G : Fam R) (x : R) (s : List R) (j : Nat), (derTable G x s j).length = s.length := by
      intro G x s j
      induction j with
      | zero => simp [derTable, alphas_length]
      | succ k ihk =>
        rw [derTable]
        have hr : ∀ (l : List R) k', (derRow G x (k+1) k' l).length = l.length := by
          intro l
          induction l with
          | nil => intro k'; simp [derRow]
          | cons a t iht => intro k'; simp [derRow, iht]
        rw [hr, ihk]
    exact this G x s j
  have z1 := derTable_zero_tail G x s (j+1) (i+1) (by omega)
  have z2 := derTable_zero_tail G x s (j+1) (i+2) (by omega)
  rw [derTable] at z1 z2 ⊢
  rw [nth_derRow G x (j+1) (derTable G x s j) 0 i (by omega), z1, z2]
  push_cast
  simp
end C10L
