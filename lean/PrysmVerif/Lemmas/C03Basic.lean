import PrysmVerif.Model.C03
import PrysmVerif.Lemmas.C01Bridge
import Mathlib.Tactic.Ring
import Mathlib.Tactic.FieldSimp
import Mathlib.Algebra.BigOperators.Ring.Finset
import Mathlib.Algebra.BigOperators.Intervals
/-!
# C03 / C05 — bridge from the core-Lean models (`[Num K]`, `Num.sumTo`) to Mathlib fields and `Finset.sum`
-/
namespace C03Lemmas

/-! every field is a `Num` through `C01.numOfField` (the scoped instance of `Lemmas/C01Bridge.lean`; activate it with
`open scoped C01`), so that the chirp-Z / matrix-DFT lemmas of C01 apply to the C03 / C05 models without instance mismatch -/
open scoped C01

variable {K : Type} [Field K]

@[simp] theorem ofInt_eq (i : Int) : (Num.ofInt i : K) = (i : K) := rfl

theorem sumTo_eq_sum (n : Nat) (f : Nat → K) : Num.sumTo n f = ∑ i ∈ Finset.range n, f i := by
  induction n with
  | zero => simp [Num.sumTo]
  | succ n ih => rw [Num.sumTo, ih, Finset.sum_range_succ]

end C03Lemmas
